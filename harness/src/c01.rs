//! C01 - scalar comparisons and boolean logic.

use crate::ast::*;
use crate::choices::Choices;
use crate::engine::*;
use crate::eval::{self, Env};
use crate::genr::{self as g, Gen, GenCfg};
use crate::model::*;
use crate::runner::*;
use crate::scheme::{ListState, Recipe};
use serde_json::json;

fn pool_val(t: usize, i: usize) -> Option<MVal> {
    match t {
        0 => g::INT_POOL.get(i).map(|v| MVal::Int(*v)),
        1 => g::BYTES_POOL.get(i).map(|v| MVal::Bytes(v.to_vec())),
        _ => g::ip_pool().get(i).map(|v| MVal::Ip(*v)),
    }
}

fn pool_len(t: usize) -> usize {
    match t {
        0 => g::INT_POOL.len(),
        1 => g::BYTES_POOL.len(),
        _ => g::ip_pool().len(),
    }
}

fn nops(t: usize) -> usize {
    if t == 0 { 7 } else { 6 }
}

/// Complete operator table: [type, op, lhs (pool index, or len = absent), rhs, nil_ne, optional]
fn optable_total() -> u64 {
    (0..3).map(|t| (nops(t) * (pool_len(t) + 1) * pool_len(t) * 2 * 2) as u64).sum()
}

fn optable_key(mut i: u64) -> Vec<u32> {
    for t in 0..3usize {
        let n = (nops(t) * (pool_len(t) + 1) * pool_len(t) * 4) as u64;
        if i < n {
            let mut k = vec![t as u32];
            for d in [nops(t), pool_len(t) + 1, pool_len(t), 2, 2] {
                k.push((i % d as u64) as u32);
                i /= d as u64;
            }
            return k;
        }
        i -= n;
    }
    unreachable!()
}

fn optable_case(ch: &mut Choices<'_>, st: &mut Stats) -> CaseResult {
    let t = ch.draw(3);
    let opi = ch.draw(nops(t));
    let li = ch.draw(pool_len(t) + 1);
    let ri = ch.draw(pool_len(t));
    let nil_ne = ch.draw(2) == 1;
    let optional = ch.draw(2) == 1;
    let ty = [MType::Int, MType::Bytes, MType::Ip][t].clone();
    let lhs = pool_val(t, li);
    if lhs.is_none() && !optional {
        // a mandatory field must be set: outside the property's domain
        return Ok(());
    }
    let rhs = pool_val(t, ri).unwrap();
    let lit = match &rhs {
        MVal::Int(v) => MLit::Int(IntLit { v: *v, form: if *v >= 0 && ri % 2 == 1 { IntForm::Hex } else { IntForm::Dec } }),
        MVal::Bytes(v) => MLit::Bytes(BytesLit { v: v.clone(), form: BytesForm::Quoted((ri % 3) as u8) }),
        MVal::Ip(v) => MLit::Ip(*v),
        _ => unreachable!(),
    };
    let op = if opi < 6 {
        MOp::Ord(OrdOp::ALL[opi], lit)
    } else {
        let MLit::Int(i) = lit else { unreachable!() };
        MOp::BitAnd(i)
    };
    let recipe = Recipe {
        fields: vec![FieldSpec { name: "x".into(), ty, optional }],
        nil_ne,
        funcs: vec![],
        concat: false,
        lists: vec![],
    };
    let expr = MExpr::Cmp { lhs: MIndex::field("x"), op };
    let style = Style { alias: vec![(li % 2) as u8], space: vec![1] };
    let text = print_expr(&expr, &style);
    let ctxs = vec![MCtx { vals: vec![lhs.clone()] }];
    let lists = ListState::new();
    let case = Case { recipe: &recipe, expr: &expr, text: &text, ctxs: &ctxs, lists: &lists };
    let scheme = recipe.build();
    let ast = parse_checked(&scheme, &case)?;
    json_checked(&ast, &case)?;
    let filter = compile_checked(ast, &case)?;
    let ec = recipe.make_ctx(&scheme, &ctxs[0], &lists);
    exec_checked(&filter, &ec, &case, 0)?;
    st.eval();
    st.class(if lhs.is_none() { "optable-absent-lhs" } else { "optable-present-lhs" });
    // every table cell is a distinct case; boundary pairs are the point of the table
    st.nontrivial(&(t, opi, li, ri, nil_ne, optional));
    if li == pool_len(t) || li == ri {
        st.sample("optable", || json!({"filter": text, "x": lhs.as_ref().map(|v| v.show()), "nil_ne": nil_ne}));
    }
    Ok(())
}

pub fn random_case_with(cfg: GenCfg, nctx: usize, ch: &mut Choices<'_>, st: &mut Stats) -> CaseResult {
    let mut gen_ = Gen::new(ch, cfg.clone());
    let expr = gen_.gen_bool(cfg.max_depth);
    gen_.finish_scheme();
    let alias: Vec<u8> = (0..8).map(|_| gen_.ch.draw(2) as u8).collect();
    let space: Vec<u8> = (0..8).map(|_| gen_.ch.weighted(&[3, 6, 1, 1, 1, 1]) as u8).collect();
    let style = Style { alias, space };
    let recipe = gen_.r.clone();
    let hints = gen_.hints.clone();
    let lists = g::gen_lists(gen_.ch, &recipe, &hints);
    let ctxs: Vec<MCtx> = (0..nctx).map(|_| g::gen_ctx(gen_.ch, &recipe, &hints)).collect();
    let text = print_expr(&expr, &style);
    let case = Case { recipe: &recipe, expr: &expr, text: &text, ctxs: &ctxs, lists: &lists };
    let scheme = recipe.build();
    let ast = parse_checked(&scheme, &case)?;
    json_checked(&ast, &case)?;
    let filter = compile_checked(ast, &case)?;
    let (leaves, ops, nots) = count_ops(&expr);
    let shape_nt = ops.len() >= 2 || nots > 0;
    for (ci, c) in ctxs.iter().enumerate() {
        let ec = recipe.make_ctx(&scheme, c, &lists);
        let out = exec_checked(&filter, &ec, &case, ci)?;
        st.eval();
        if let ExecOutcome::Grey(_) = out {
            st.excluded();
            continue;
        }
        let env = Env::new(&recipe, c, &lists);
        let mut truths = Vec::new();
        leaf_truths(&env, &expr, &mut truths);
        let mixed = truths.iter().any(|b| *b) && truths.iter().any(|b| !*b);
        if shape_nt && mixed {
            st.nontrivial(&(&text, c));
            st.sample("nontrivial", || json!({"filter": text, "context": c.show(&recipe.fields), "result": matches!(out, ExecOutcome::Agree(true))}));
        }
        if c.vals.iter().any(|v| v.is_none()) {
            st.class("ctx-with-absent-field");
        }
        // does flipping nil_ne flip the result?
        let mut r2 = recipe.clone();
        r2.nil_ne = !r2.nil_ne;
        let env2 = Env::new(&r2, c, &lists);
        if let (Ok(a), Ok(b)) = (eval::eval_expr(&env, &expr), eval::eval_expr(&env2, &expr)) {
            if a != b {
                st.class("nil-ne-setting-decides-result");
            }
        }
    }
    st.class(&format!("leaves-{}", leaves.min(8)));
    st.class(&format!("distinct-logical-ops-{}", ops.len()));
    if nots > 0 {
        st.class("has-not");
    }
    Ok(())
}


/// Rule-set idioms: chains in which one field is tested again and again (`n != 1 and n != 2 and n != 3`,
/// `ip == a or ip == b or ...`, `n >= 1 and n <= 5`), negated members, negated groups, two groups joined by another
/// operator.  These are the shapes a compile-time rewrite of logical chains (merging tests into a set lookup or a
/// range, folding negations, dropping repeated operands) would look for; every field may be absent, both
/// nil-not-equal settings, mandatory and optional fields.
fn ruleset_case(ch: &mut Choices<'_>, st: &mut Stats) -> CaseResult {
    let nil_ne = ch.draw(2) == 0;
    let nfields = ch.range(1, 3);
    let mut fields = Vec::new();
    let mut lits: Vec<Vec<MLit>> = Vec::new();
    for i in 0..nfields {
        let t = ch.draw(3);
        let optional = ch.draw(3) != 0;
        fields.push(FieldSpec { name: format!("f{i}"), ty: [MType::Int, MType::Bytes, MType::Ip][t].clone(), optional });
        let start = ch.draw(pool_len(t));
        let n = ch.range(2, 5);
        let mut l = Vec::new();
        for k in 0..n {
            let ri = if ch.chance(1, 5) { ch.draw(pool_len(t)) } else { (start + k) % pool_len(t) };
            let v = pool_val(t, ri).unwrap();
            l.push(match v {
                MVal::Int(v) => MLit::Int(IntLit { v, form: if v >= 0 && ri % 2 == 1 { IntForm::Hex } else { IntForm::Dec } }),
                MVal::Bytes(v) => MLit::Bytes(BytesLit { v, form: BytesForm::Quoted((ri % 3) as u8) }),
                MVal::Ip(v) => MLit::Ip(v),
                _ => unreachable!(),
            });
        }
        lits.push(l);
    }
    let mut max_same = 0usize;
    let mut group = |ch: &mut Choices<'_>| -> MExpr {
        let lop = *ch.pick(&LOp::ALL);
        let n = ch.weighted(&[1, 4, 3, 2, 1, 1]) + 2;
        let dom_f = ch.draw(nfields);
        let dom_op = *ch.pick(&OrdOp::ALL);
        let mut same = 0;
        let mut items = Vec::new();
        for _ in 0..n {
            let f = if ch.chance(3, 4) { dom_f } else { ch.draw(nfields) };
            let o = if ch.chance(3, 4) { dom_op } else { *ch.pick(&OrdOp::ALL) };
            if f == dom_f && o == dom_op {
                same += 1;
            }
            let lit = ch.pick(&lits[f]).clone();
            let op = match (&lit, ch.chance(1, 12)) {
                (MLit::Int(i), true) => MOp::BitAnd(i.clone()),
                _ => MOp::Ord(o, lit),
            };
            let cmp = MExpr::Cmp { lhs: MIndex::field(&fields[f].name), op };
            items.push(if ch.chance(1, 7) { MExpr::Not(Box::new(cmp)) } else { cmp });
        }
        max_same = max_same.max(same);
        MExpr::Comb { op: lop, items }
    };
    fn wrap(op: LOp, it: MExpr) -> MExpr {
        match &it {
            MExpr::Comb { op: o, .. } if o.prec() <= op.prec() => MExpr::Paren(Box::new(it)),
            _ => it,
        }
    }
    let expr = match ch.weighted(&[5, 2, 2, 2]) {
        0 => group(ch),
        1 => MExpr::Not(Box::new(MExpr::Paren(Box::new(group(ch))))),
        2 => {
            let op2 = *ch.pick(&LOp::ALL);
            let (a, b) = (group(ch), group(ch));
            MExpr::Comb { op: op2, items: vec![wrap(op2, a), wrap(op2, b)] }
        }
        _ => {
            let op2 = *ch.pick(&LOp::ALL);
            let (a, b) = (group(ch), group(ch));
            let f = ch.draw(nfields);
            let mid = MExpr::Cmp { lhs: MIndex::field(&fields[f].name), op: MOp::Ord(*ch.pick(&OrdOp::ALL), ch.pick(&lits[f]).clone()) };
            MExpr::Comb { op: op2, items: vec![wrap(op2, a), mid, MExpr::Not(Box::new(MExpr::Paren(Box::new(b))))] }
        }
    };
    let alias: Vec<u8> = (0..8).map(|_| ch.draw(2) as u8).collect();
    let space: Vec<u8> = (0..8).map(|_| ch.weighted(&[3, 6, 1, 1, 1, 1]) as u8).collect();
    let style = Style { alias, space };
    let recipe = Recipe { fields: fields.clone(), nil_ne, funcs: vec![], concat: false, lists: vec![] };
    let mut ctxs = Vec::new();
    for _ in 0..6 {
        let mut vals = Vec::new();
        for (i, f) in fields.iter().enumerate() {
            let t = match f.ty {
                MType::Int => 0,
                MType::Bytes => 1,
                _ => 2,
            };
            let how = ch.weighted(&[if f.optional { 3 } else { 0 }, 4, 2]);
            vals.push(match how {
                0 => None,
                1 => Some(ch.pick(&lits[i]).val()),
                _ => pool_val(t, ch.draw(pool_len(t))),
            });
        }
        ctxs.push(MCtx { vals });
    }
    let text = print_expr(&expr, &style);
    let lists = ListState::new();
    let case = Case { recipe: &recipe, expr: &expr, text: &text, ctxs: &ctxs, lists: &lists };
    let scheme = recipe.build();
    let ast = parse_checked(&scheme, &case)?;
    json_checked(&ast, &case)?;
    let filter = compile_checked(ast, &case)?;
    for (ci, c) in ctxs.iter().enumerate() {
        let ec = recipe.make_ctx(&scheme, c, &lists);
        exec_checked(&filter, &ec, &case, ci)?;
        st.eval();
        let env = Env::new(&recipe, c, &lists);
        let mut truths = Vec::new();
        leaf_truths(&env, &expr, &mut truths);
        let mixed = truths.iter().any(|b| *b) && truths.iter().any(|b| !*b);
        let absent = c.vals.iter().any(|v| v.is_none());
        if max_same >= 3 && (mixed || absent) {
            st.nontrivial(&(&text, c, nil_ne));
            st.sample("ruleset", || json!({"filter": text, "context": c.show(&recipe.fields), "nil_ne": nil_ne}));
        }
        if absent {
            st.class("ruleset-ctx-with-absent-field");
            let mut r2 = recipe.clone();
            r2.nil_ne = !r2.nil_ne;
            let env2 = Env::new(&r2, c, &lists);
            if let (Ok(a), Ok(b)) = (eval::eval_expr(&env, &expr), eval::eval_expr(&env2, &expr)) {
                if a != b {
                    st.class("ruleset-nil-ne-setting-decides-result");
                }
            }
        }
    }
    st.class(&format!("ruleset-same-field-same-op-{}", max_same.min(6)));
    st.class(if nil_ne { "ruleset-nil-ne-true" } else { "ruleset-nil-ne-false" });
    Ok(())
}

fn random_case(ch: &mut Choices<'_>, st: &mut Stats) -> CaseResult {
    random_case_with(GenCfg::scalar(), 8, ch, st)
}

pub fn subs() -> Vec<Sub> {
    vec![
        Sub { name: "optable", f: Box::new(optable_case) },
        Sub { name: "random", f: Box::new(random_case) },
        Sub { name: "ruleset", f: Box::new(ruleset_case) },
    ]
}

pub fn run(run: &Run) {
    run.rule(
        "optable: every (Int|Bytes|Ip) x operator x (boundary lhs incl. absent) x boundary rhs x nil_ne x optional cell, each distinct cell counts; \
         random: grammar-directed well-typed scalar filters (depth<=5, chains of 3-6 operands) x 8 contexts; non-trivial = filter has >=2 distinct logical operators or a not AND on that context some comparison is true and some false; distinct by (filter text, context); \
         ruleset: rule-set idioms over 1-3 fields (one field tested 2-7 times in a chain, mostly with one operator, against 2-5 literals; negated members, negated groups, two groups joined by another operator) x 6 contexts (field absent / equal to a literal / boundary value), both nil-not-equal settings; non-trivial = >=3 tests of one field with one operator AND (truths mixed or a field absent)",
    );
    run.assume("mandatory fields are always set (an unset mandatory field panics by contract)");
    run.assume("the reference evaluator in harness/src/eval.rs states the documented semantics");
    let subs = subs();
    run_regressions(run, &subs);
    run.enumerate("optable", optable_total(), &optable_key, &*find_sub(&subs, "optable").unwrap().f);
    let n = run.tier.pick(300_000, 20_000_000);
    run.random("random", n, 300, &*find_sub(&subs, "random").unwrap().f);
    let n = run.tier.pick(150_000, 8_000_000);
    run.random("ruleset", n, 200, &*find_sub(&subs, "ruleset").unwrap().f);
}

//! C13 - the configurable nesting limit bounds every accepted filter.
//!
//! Reference: a filter is built here from an explicit list of nesting
//! constructs, so its nesting depth (number of enclosing parentheses, `not`s,
//! quantifiers and function-call argument lists on the deepest path) and its
//! value on the fixed context are known by construction.  The engine must
//! accept it exactly when `depth <= limit`.

use crate::choices::Choices;
use crate::engine::catch;
use crate::model::*;
use crate::runner::*;
use crate::scheme::{ListState, Recipe};
use serde_json::{Value, json};
use std::sync::LazyLock;
use wirefilter::{FilterParser, Scheme};

// ---------------------------------------------------------------------------
// scheme and context

fn recipe() -> Recipe {
    let f = |n: &str, ty: MType| FieldSpec { name: n.into(), ty, optional: false };
    Recipe {
        fields: vec![
            f("t", MType::Bool),
            f("f", MType::Bool),
            f("ab", MType::array(MType::Bool)),
            f("s", MType::Bytes),
            f("sa", MType::array(MType::Bytes)),
        ],
        nil_ne: true,
        funcs: ["b2b", "b2a", "a2b", "a2a", "pick", "cnt", "idb", "lower", "yes", "nowi", "optb"].iter().map(|s| s.to_string()).collect(),
        concat: false,
        lists: vec![],
    }
}

static RECIPE: LazyLock<Recipe> = LazyLock::new(recipe);
static SCHEME: LazyLock<Scheme> = LazyLock::new(|| RECIPE.build());

const AB_VARIANTS: [[bool; 2]; 3] = [[true, false], [false, false], [true, true]];

fn mctx(abv: usize) -> MCtx {
    let ab = AB_VARIANTS[abv % 3];
    MCtx {
        vals: vec![
            Some(MVal::Bool(true)),
            Some(MVal::Bool(false)),
            Some(MVal::Array(MType::Bool, ab.iter().map(|b| MVal::Bool(*b)).collect())),
            Some(MVal::Bytes(b"x".to_vec())),
            Some(MVal::Array(MType::Bytes, vec![MVal::Bytes(b"x".to_vec()), MVal::Bytes(b"Y".to_vec())])),
        ],
    }
}

// ---------------------------------------------------------------------------
// shapes built inside-out, with depth and value known by construction

#[derive(Clone, Debug, PartialEq, Eq, Hash)]
enum BV {
    One(bool),
    Many(Vec<bool>),
}

impl BV {
    fn show(&self) -> Value {
        match self {
            BV::One(b) => json!(b),
            BV::Many(v) => json!(v),
        }
    }
    fn to_mval(&self) -> MVal {
        match self {
            BV::One(b) => MVal::Bool(*b),
            BV::Many(v) => MVal::Array(MType::Bool, v.iter().map(|b| MVal::Bool(*b)).collect()),
        }
    }
}

const K_PAREN: u8 = 1;
const K_NOT: u8 = 2;
const K_QUANT: u8 = 4;
const K_CALL: u8 = 8;

// where the deepest path runs through (for the class histogram)
const POS_ARG1: u8 = 1;
const POS_ARG2: u8 = 2;
const POS_ARG3: u8 = 4;
const POS_QUANT_ARG: u8 = 8;
const POS_CHAIN_RIGHT: u8 = 16;
const POS_CHAIN_LEFT: u8 = 32;
const POS_CHAIN_MIDDLE: u8 = 64;

#[derive(Clone, Debug)]
struct Built {
    text: String,
    val: BV,
    depth: usize,
    /// an un-parenthesised and/or/xor chain (must be parenthesised before it
    /// can be an operand or an argument)
    chain: bool,
    kinds: u8,
    pos: u8,
    /// contains a call of b2b/b2a/a2b/a2a.  A call whose name starts like a hex
    /// literal is read, in argument position, by a fallback path of the argument
    /// lexer that replaces whatever error occurred inside it by "unrecognised
    /// input"; the property only promises *an* error, so for these shapes the
    /// class of the error is recorded, not asserted.
    hexname: bool,
}

impl Built {
    fn arr(&self) -> bool {
        matches!(self.val, BV::Many(_))
    }
}

const NLEAVES: usize = 14;

fn leaf(i: usize, abv: usize) -> Built {
    let (text, val, depth, kinds) = match i % NLEAVES {
        0 => ("t", BV::One(true), 0, 0),
        1 => ("ab", BV::Many(AB_VARIANTS[abv % 3].to_vec()), 0, 0),
        2 => ("f", BV::One(false), 0, 0),
        3 => ("s == \"x\"", BV::One(true), 0, 0),
        4 => ("sa[*] == \"x\"", BV::Many(vec![true, false]), 0, 0),
        // lower(idb(["x","Y"])) = ["x","y"]
        5 => ("lower(idb(sa[*])[*])[*] == \"y\"", BV::Many(vec![false, true]), 2, K_CALL),
        // calls with an empty argument list (functions without mandatory parameters):
        // the empty list is still one argument list on the path
        6 => ("yes()", BV::One(true), 1, K_CALL),
        7 => ("nowi() == 42", BV::One(true), 1, K_CALL),
        8 => ("optb( ) == \"dflt\"", BV::One(true), 1, K_CALL),
        9 => ("optb(\"q\") == \"dflt\"", BV::One(false), 1, K_CALL),
        // parentheses, brackets and quotes that are literal data, not nesting (regex groups, raw strings)
        10 => ("s matches \"^(x|(a(b(c)?)?)?)$\"", BV::One(true), 0, 0),
        11 => ("s == r#\"5\" (inch) ((((display))))\"#", BV::One(false), 0, 0),
        12 => ("s matches \"^[^\\\"(]+$\"", BV::One(true), 0, 0),
        _ => ("s matches r#\"^\"?\\(((compatible))[^)]*\\)\"?$\"#", BV::One(false), 0, 0),
    };
    Built { text: text.into(), val, depth, chain: false, kinds, pos: 0, hexname: false }
}

#[derive(Clone, Copy, PartialEq, Eq, Debug)]
enum Step {
    P,
    N,
    Q,
    /// call of an adapter yielding Bool (b2b / a2b)
    CB,
    /// call of an adapter yielding Array(Bool) (b2a / a2a)
    CA,
    /// pick(X, "x", "y") == "x"
    Pick1,
    /// pick(t, pick(X, "x", "y"), "z") == "x"
    Pick2,
    /// pick(f, "z", pick(X, "x", "y")) == "x"
    Pick3,
    /// cnt(X) == n
    Cnt,
    /// X op shallow
    ChainL,
    /// shallow op X
    ChainR,
    /// shallow op X op shallow
    ChainM,
    /// three operands joined by two *different* operators, the deep one first, in the middle or last
    ChainMixed,
}

const STEPS: [Step; 13] = [
    Step::P,
    Step::N,
    Step::Q,
    Step::CB,
    Step::CA,
    Step::Pick1,
    Step::Pick2,
    Step::Pick3,
    Step::Cnt,
    Step::ChainL,
    Step::ChainR,
    Step::ChainM,
    Step::ChainMixed,
];

fn map_bv(v: &BV, f: impl Fn(bool) -> bool) -> BV {
    match v {
        BV::One(b) => BV::One(f(*b)),
        BV::Many(v) => BV::Many(v.iter().map(|b| f(*b)).collect()),
    }
}

fn zip_bv(a: &BV, b: &BV, f: impl Fn(bool, bool) -> bool) -> BV {
    match (a, b) {
        (BV::One(x), BV::One(y)) => BV::One(f(*x, *y)),
        (BV::Many(x), BV::Many(y)) => BV::Many(x.iter().zip(y.iter()).map(|(p, q)| f(*p, *q)).collect()),
        _ => panic!("model: chain over operands of different kinds"),
    }
}

/// Wrap `b` in one more construct; `v` selects spelling / operator variants.
/// None when the construct cannot be applied to this operand (typing).
fn apply(step: Step, b: &Built, v: usize, abv: usize) -> Option<Built> {
    let x = &b.text;
    let mut out = b.clone();
    match step {
        Step::P => {
            out.text = if v & 1 == 0 { format!("({x})") } else { format!("( {x} )") };
            out.depth += 1;
            out.chain = false;
            out.kinds |= K_PAREN;
            return Some(out);
        }
        _ if b.chain => return None,
        Step::N => {
            out.text = format!("{}{x}", ["not ", "!", "! ", "not  "][v % 4]);
            out.val = map_bv(&b.val, |p| !p);
            out.depth += 1;
            out.kinds |= K_NOT;
        }
        Step::Q => {
            let BV::Many(items) = &b.val else { return None };
            let all = v & 1 == 1;
            let name = if all { "all" } else { "any" };
            out.text = if v & 2 == 0 { format!("{name}({x})") } else { format!("{name} ( {x} )") };
            out.val = BV::One(if all { items.iter().all(|p| *p) } else { items.iter().any(|p| *p) });
            out.depth += 1;
            out.kinds |= K_QUANT;
            out.pos |= POS_QUANT_ARG;
        }
        Step::CB | Step::CA => {
            let (name, val) = match (&b.val, step) {
                (BV::One(p), Step::CB) => ("b2b", BV::One(*p)),
                (BV::One(p), _) => ("b2a", BV::Many(vec![*p, !*p])),
                (BV::Many(items), Step::CB) => ("a2b", BV::One(items.iter().filter(|p| **p).count() % 2 == 1)),
                (BV::Many(items), _) => ("a2a", BV::Many(items.iter().rev().cloned().collect())),
            };
            out.text = if v & 1 == 0 { format!("{name}({x})") } else { format!("{name} ( {x} )") };
            out.val = val;
            out.depth += 1;
            out.kinds |= K_CALL;
            out.pos |= POS_ARG1;
            out.hexname = true;
        }
        Step::Pick1 => {
            let BV::One(p) = b.val else { return None };
            let want_y = v & 1 == 1;
            out.text = format!("pick({x}, \"x\", \"y\") == \"{}\"", if want_y { "y" } else { "x" });
            out.val = BV::One(p != want_y);
            out.depth += 1;
            out.kinds |= K_CALL;
            out.pos |= POS_ARG1;
        }
        Step::Pick2 => {
            let BV::One(p) = b.val else { return None };
            out.text = format!("pick(t, pick({x}, \"x\", \"y\"), \"z\") == \"x\"");
            out.val = BV::One(p);
            out.depth += 2;
            out.kinds |= K_CALL;
            out.pos |= POS_ARG2;
        }
        Step::Pick3 => {
            let BV::One(p) = b.val else { return None };
            out.text = format!("pick(f, \"z\", pick({x}, \"x\", \"y\")) == \"x\"");
            out.val = BV::One(p);
            out.depth += 2;
            out.kinds |= K_CALL;
            out.pos |= POS_ARG3;
        }
        Step::Cnt => {
            let BV::Many(items) = &b.val else { return None };
            let n = v % 3;
            out.text = format!("cnt({x}) == {n}");
            out.val = BV::One(items.iter().filter(|p| **p).count() == n);
            out.depth += 1;
            out.kinds |= K_CALL;
            out.pos |= POS_ARG1;
        }
        Step::ChainMixed => {
            // and binds tighter than xor, xor tighter than or: value by construction
            const PAIRS: [(usize, usize); 6] = [(0, 1), (1, 0), (0, 2), (2, 0), (1, 2), (2, 1)];
            let (o1, o2) = PAIRS[v % 6];
            let spell = |o: usize, alt: bool| [["and", "&&"], ["or", "||"], ["xor", "^^"]][o][alt as usize];
            let prec = |o: usize| [3, 1, 2][o];
            let f = |o: usize, p: bool, q: bool| match o {
                0 => p && q,
                1 => p || q,
                _ => p != q,
            };
            let shallow = |k: usize| -> (String, BV) {
                if b.arr() {
                    ("ab".to_string(), BV::Many(AB_VARIANTS[abv % 3].to_vec()))
                } else if (v / 18 + k) % 2 == 0 {
                    ("t".to_string(), BV::One(true))
                } else {
                    ("f".to_string(), BV::One(false))
                }
            };
            let (s1, v1) = shallow(0);
            let (s2, v2) = shallow(1);
            let pos = (v / 6) % 3;
            let (texts, vals): ([&str; 3], [&BV; 3]) = match pos {
                0 => ([x.as_str(), s1.as_str(), s2.as_str()], [&b.val, &v1, &v2]),
                1 => ([s1.as_str(), x.as_str(), s2.as_str()], [&v1, &b.val, &v2]),
                _ => ([s1.as_str(), s2.as_str(), x.as_str()], [&v1, &v2, &b.val]),
            };
            out.text = format!("{} {} {} {} {}", texts[0], spell(o1, v % 2 == 1), texts[1], spell(o2, v % 4 >= 2), texts[2]);
            out.val = if prec(o1) >= prec(o2) {
                zip_bv(&zip_bv(vals[0], vals[1], |p, q| f(o1, p, q)), vals[2], |p, q| f(o2, p, q))
            } else {
                zip_bv(vals[0], &zip_bv(vals[1], vals[2], |p, q| f(o2, p, q)), |p, q| f(o1, p, q))
            };
            out.pos |= [POS_CHAIN_LEFT, POS_CHAIN_MIDDLE, POS_CHAIN_RIGHT][pos];
            out.chain = true;
            return Some(out);
        }
        Step::ChainL | Step::ChainR | Step::ChainM => {
            let opi = v % 6;
            let op = ["and", "or", "xor", "&&", "||", "^^"][opi];
            let f = |p: bool, q: bool| match opi % 3 {
                0 => p && q,
                1 => p || q,
                _ => p != q,
            };
            let shallow = |k: usize| -> (String, BV) {
                if b.arr() {
                    ("ab".to_string(), BV::Many(AB_VARIANTS[abv % 3].to_vec()))
                } else if (v / 6 + k) % 2 == 0 {
                    ("t".to_string(), BV::One(true))
                } else {
                    ("f".to_string(), BV::One(false))
                }
            };
            let (s1, v1) = shallow(0);
            let (s2, v2) = shallow(1);
            match step {
                Step::ChainL => {
                    out.text = format!("{x} {op} {s1}");
                    out.val = zip_bv(&b.val, &v1, f);
                    out.pos |= POS_CHAIN_LEFT;
                }
                Step::ChainR => {
                    out.text = format!("{s1} {op} {x}");
                    out.val = zip_bv(&v1, &b.val, f);
                    out.pos |= POS_CHAIN_RIGHT;
                }
                _ => {
                    out.text = format!("{s1} {op} {x} {op} {s2}");
                    out.val = zip_bv(&zip_bv(&v1, &b.val, f), &v2, f);
                    out.pos |= POS_CHAIN_MIDDLE;
                }
            }
            out.chain = true;
        }
    }
    Some(out)
}

/// A value expression around `b`: one more call whose result is the value.
fn value_wrap(b: &Built, v: usize) -> Option<(String, MVal, usize)> {
    if b.chain {
        return None;
    }
    let x = &b.text;
    let d = b.depth + 1;
    Some(match (&b.val, v % 3) {
        (BV::One(p), 0) => (format!("b2b({x})"), MVal::Bool(*p), d),
        (BV::One(p), 1) => (format!("b2a({x})"), BV::Many(vec![*p, !*p]).to_mval(), d),
        (BV::One(p), _) => (format!("pick({x}, \"x\", \"y\")"), MVal::Bytes(if *p { b"x".to_vec() } else { b"y".to_vec() }), d),
        (BV::Many(i), 0) => (format!("a2b({x})"), MVal::Bool(i.iter().filter(|p| **p).count() % 2 == 1), d),
        (BV::Many(i), 1) => (format!("a2a({x})"), BV::Many(i.iter().rev().cloned().collect()).to_mval(), d),
        (BV::Many(i), _) => (format!("cnt({x})"), MVal::Int(i.iter().filter(|p| **p).count() as i64), d),
    })
}

// ---------------------------------------------------------------------------
// oracle

const NESTING_MSG: &str = "maximum nesting depth exceeded";

/// The limit reaches the parser through one of its three configuration routes
/// (chosen from the input text, so that every route sees every kind of shape).
fn parser_for<'s>(scheme: &'s Scheme, d: usize, text: &str) -> FilterParser<'s> {
    let route = fingerprint(text) % 3;
    if d == 128 && route == 0 {
        // 128 is the documented default: exercised through the untouched parser
        return FilterParser::new(scheme);
    }
    match route {
        0 => {
            let mut p = FilterParser::new(scheme);
            p.set_max_nesting_depth(d as u16);
            p
        }
        1 => FilterParser::with_settings(scheme, wirefilter::ParserSettings { max_nesting_depth: d as u16, ..Default::default() }),
        _ => scheme.parser_with_settings(wirefilter::ParserSettings { max_nesting_depth: d as u16, ..Default::default() }),
    }
}

fn case_json(text: &str, depth: usize, d: usize, val: Value, abv: usize) -> Value {
    json!({
        "scheme": "t,f: Bool; ab: Array(Bool); s: Bytes; sa: Array(Bytes); functions b2b b2a a2b a2a pick cnt idb lower",
        "context": {"t": true, "f": false, "ab": AB_VARIANTS[abv % 3], "s": "x", "sa": ["x", "Y"]},
        "filter": text,
        "nesting_depth": depth,
        "max_nesting_depth": d,
        "reference_value": val,
    })
}

fn judge_parse<T>(
    what: &str,
    r: Result<Result<T, String>, String>,
    depth: usize,
    d: usize,
    strict_class: bool,
    st: &mut Stats,
    show: &dyn Fn() -> Value,
) -> Result<Option<T>, Fail> {
    match r {
        Err(p) => Err(Fail::new(format!("{what}-parse-panic"), format!("parser panicked: {p}"), show())),
        Ok(Ok(ast)) => {
            if depth <= d {
                Ok(Some(ast))
            } else {
                Err(Fail::new(
                    format!("{what}-over-limit-accepted"),
                    format!("nesting depth {depth} was accepted under max_nesting_depth = {d}"),
                    show(),
                ))
            }
        }
        Ok(Err(e)) => {
            if depth <= d {
                Err(Fail::new(
                    format!("{what}-within-limit-rejected"),
                    format!("nesting depth {depth} was rejected under max_nesting_depth = {d}:\n{e}"),
                    show(),
                ))
            } else if !e.contains(NESTING_MSG) && !strict_class {
                st.class("rejected-over-limit-with-another-error(hex-like-function-name)");
                st.sample("rejected-over-limit-with-another-error", || {
                    let mut c = show();
                    c["error"] = json!(e);
                    c
                });
                Ok(None)
            } else if !e.contains(NESTING_MSG) {
                // The property only demands a rejection; which error is reported
                // (and its wording) is not fixed, so this is recorded, not failed.
                st.class("rejected-over-limit-with-another-error");
                Ok(None)
            } else {
                Ok(None)
            }
        }
    }
}

/// Parse `text` as a filter under limit `d`; when accepted (and `sem`), also
/// serialise / compile / execute and compare with the value by construction.
fn check_filter(b: &Built, d: usize, abv: usize, sem: bool, st: &mut Stats) -> CaseResult {
    let BV::One(want) = b.val else { panic!("model: top level is an array") };
    let show = || case_json(&b.text, b.depth, d, b.val.show(), abv);
    let scheme: &Scheme = &SCHEME;
    let parser = parser_for(scheme, d, &b.text);
    st.eval();
    let r = catch(|| parser.parse(&b.text).map_err(|e| e.to_string()));
    let Some(ast) = judge_parse("filter", r, b.depth, d, !b.hexname, st, &show)? else {
        st.class("rejected-over-limit");
        return Ok(());
    };
    st.class("accepted-within-limit");
    if !sem {
        return Ok(());
    }
    let js = catch(|| serde_json::to_string(&ast)).map_err(|p| Fail::new("serialize-panic", p, show()))?;
    js.map_err(|e| Fail::new("serialize-error", e.to_string(), show()))?;
    let filter = catch(|| ast.compile()).map_err(|p| Fail::new("compile-panic", p, show()))?;
    let ec = RECIPE.make_ctx(scheme, &mctx(abv), &ListState::new());
    match catch(|| filter.execute(&ec)) {
        Err(p) => Err(Fail::new("execute-panic", p, show())),
        Ok(Err(e)) => Err(Fail::new("execute-error", e.to_string(), show())),
        Ok(Ok(got)) if got != want => Err(Fail::new(
            "value-mismatch",
            format!("engine returned {got}, the filter is {want} by construction"),
            show(),
        )),
        Ok(Ok(_)) => Ok(()),
    }
}

fn check_value(text: &str, want: &MVal, depth: usize, d: usize, abv: usize, sem: bool, strict_class: bool, st: &mut Stats) -> CaseResult {
    let show = || {
        let mut j = case_json(text, depth, d, want.show(), abv);
        j["kind"] = json!("value expression (parse_value)");
        j
    };
    let scheme: &Scheme = &SCHEME;
    let parser = parser_for(scheme, d, text);
    st.eval();
    let r = catch(|| parser.parse_value(text).map_err(|e| e.to_string()));
    let Some(ast) = judge_parse("value", r, depth, d, strict_class, st, &show)? else {
        st.class("value-rejected-over-limit");
        return Ok(());
    };
    st.class("value-accepted-within-limit");
    if !sem {
        return Ok(());
    }
    let js = catch(|| serde_json::to_string(&ast)).map_err(|p| Fail::new("serialize-panic", p, show()))?;
    js.map_err(|e| Fail::new("serialize-error", e.to_string(), show()))?;
    let fv = catch(|| ast.compile()).map_err(|p| Fail::new("compile-panic", p, show()))?;
    let ec = RECIPE.make_ctx(scheme, &mctx(abv), &ListState::new());
    let got = catch(|| fv.execute(&ec).map(|r| r.map(|v| MVal::from_lhs(&v)).map_err(MType::from_engine)));
    match got {
        Err(p) => Err(Fail::new("execute-panic", p, show())),
        Ok(Err(e)) => Err(Fail::new("execute-error", e.to_string(), show())),
        Ok(Ok(Ok(v))) if v == *want => Ok(()),
        Ok(Ok(other)) => Err(Fail::new(
            "value-mismatch",
            format!("engine returned {other:?}, the expression is {want:?} by construction"),
            show(),
        )),
    }
}

fn kinds_count(k: u8) -> u32 {
    k.count_ones()
}

fn classify(st: &mut Stats, b: &Built) {
    for (bit, name) in [
        (POS_ARG1, "deep-path-in-1st-argument"),
        (POS_ARG2, "deep-path-in-2nd-argument"),
        (POS_ARG3, "deep-path-in-3rd-argument"),
        (POS_QUANT_ARG, "deep-path-in-quantifier-argument"),
        (POS_CHAIN_RIGHT, "deep-path-in-right-operand"),
        (POS_CHAIN_LEFT, "deep-path-in-left-operand"),
        (POS_CHAIN_MIDDLE, "deep-path-in-middle-operand"),
    ] {
        if b.pos & bit != 0 {
            st.class(name);
        }
    }
    for (bit, name) in [(K_PAREN, "uses-paren"), (K_NOT, "uses-not"), (K_QUANT, "uses-quantifier"), (K_CALL, "uses-call")] {
        if b.kinds & bit != 0 {
            st.class(name);
        }
    }
}

/// All limits 0..=8 against one shape.
fn small_limits(b: &Built, abv: usize, st: &mut Stats) -> CaseResult {
    for d in 0..=8usize {
        // semantics once, at the smallest accepting limit
        check_filter(b, d, abv, d == b.depth, st)?;
        if (b.depth == d || b.depth == d + 1) && kinds_count(b.kinds) >= 2 {
            st.nontrivial(&(&b.text, d));
        }
    }
    Ok(())
}

// ---------------------------------------------------------------------------
// sub-check "shapes": every sequence over {paren, not, quantifier, call}

const MAX_SHAPE_LEN: usize = 9;
const SHAPE_VARIANTS: usize = 4;

/// Type the sequence (outermost first): which kind each position must yield.
/// Returns for every call its step (CB / CA) and the leaf kind.
fn solve(seq: &[u8], i: usize, need_arr: bool, prefer_arr: bool, outs: &mut Vec<bool>) -> Option<bool> {
    if i == seq.len() {
        return Some(need_arr);
    }
    match seq[i] {
        0 | 1 => solve(seq, i + 1, need_arr, prefer_arr, outs),
        2 => {
            if need_arr {
                None
            } else {
                solve(seq, i + 1, true, prefer_arr, outs)
            }
        }
        _ => {
            outs.push(need_arr);
            let mark = outs.len();
            for inner in [prefer_arr, !prefer_arr] {
                outs.truncate(mark);
                if let Some(l) = solve(seq, i + 1, inner, prefer_arr, outs) {
                    return Some(l);
                }
            }
            outs.truncate(mark - 1);
            None
        }
    }
}

fn shapes_case(ch: &mut Choices<'_>, st: &mut Stats) -> CaseResult {
    let n = ch.draw(MAX_SHAPE_LEN + 1);
    let seq: Vec<u8> = (0..n).map(|_| ch.draw(4) as u8).collect();
    let variant = ch.draw(SHAPE_VARIANTS);
    let abv = ch.draw(3);
    let mut outs = Vec::new();
    let Some(leaf_arr) = solve(&seq, 0, false, variant & 1 == 1, &mut outs) else {
        st.excluded();
        st.class("untypeable-sequence");
        return Ok(());
    };
    // build inside-out
    // the last spelling variant ends Bool sequences in a call with an empty argument list
    let empty_call_leaf = !leaf_arr && variant == SHAPE_VARIANTS - 1;
    let mut b = leaf(if leaf_arr { 1 } else if empty_call_leaf { 6 + n % 3 } else { 0 }, abv);
    let leaf_depth = b.depth;
    let mut calls = outs.iter().rev();
    for (k, c) in seq.iter().enumerate().rev() {
        let step = match c {
            0 => Step::P,
            1 => Step::N,
            2 => Step::Q,
            _ => {
                if *calls.next().expect("one output kind per call") {
                    Step::CA
                } else {
                    Step::CB
                }
            }
        };
        let v = (variant >> 1) * (1 + k) + k / 2;
        b = apply(step, &b, v, abv).expect("typed sequence is buildable");
    }
    assert_eq!(b.depth, n + leaf_depth, "model: depth of a pure sequence is its length (plus the leaf's own call)");
    if empty_call_leaf {
        st.class("innermost-construct-is-call-with-empty-argument-list");
    }
    assert!(!b.arr(), "model: outermost kind is Bool");
    st.class(&format!("shape-length-{n}"));
    classify(st, &b);
    st.sample(&format!("shape-length-{n}"), || json!({"filter": b.text, "depth": b.depth, "value": b.val.show()}));
    small_limits(&b, abv, st)
}

// ---------------------------------------------------------------------------
// sub-check "reuse": ONE parser object, many inputs.  The limit is a property
// of the parser's settings, not of what it parsed before: rejected, malformed
// and truncated inputs in between must not change later verdicts.

fn random_shape(ch: &mut Choices<'_>, abv: usize, max_len: usize) -> Built {
    let mut b = leaf(ch.draw(NLEAVES), abv);
    let n = ch.draw(max_len + 1);
    for k in 0..n {
        let step = STEPS[ch.draw(STEPS.len())];
        let v = ch.draw(24) + k;
        if let Some(nb) = apply(step, &b, v, abv) {
            b = nb;
        }
    }
    if b.chain || b.arr() {
        // close to a Bool, non-chain top level
        b = apply(Step::P, &b, 0, abv).unwrap();
        if b.arr() {
            b = apply(Step::Q, &b, ch.draw(4), abv).unwrap();
        }
    }
    b
}

fn reuse_case(ch: &mut Choices<'_>, st: &mut Stats) -> CaseResult {
    let d = *ch.pick(&[0usize, 1, 2, 3, 4, 5, 6, 128]);
    let abv = ch.draw(3);
    let scheme: &Scheme = &SCHEME;
    let parser = parser_for(scheme, d, &format!("reuse{d}{abv}"));
    let n = ch.range(2, 7);
    let mut history: Vec<Value> = Vec::new();
    let (mut broken_before, mut over_before) = (false, false);
    for _ in 0..n {
        let b = random_shape(ch, abv, 7);
        let kind = ch.weighted(&[3, 2, 1]);
        if kind == 0 {
            // judged: a well-typed shape of known depth
            let show = || {
                let mut c = case_json(&b.text, b.depth, d, b.val.show(), abv);
                c["earlier_inputs_to_the_same_parser"] = json!(history);
                c
            };
            st.eval();
            let r = catch(|| parser.parse(&b.text).map_err(|e| e.to_string()));
            let accepted = judge_parse("reused-parser", r, b.depth, d, !b.hexname, st, &show)?.is_some();
            if accepted && (broken_before || over_before) {
                st.class("reuse:accepted-after-a-rejected-input");
                if b.depth >= 1 && b.depth + 1 >= d {
                    st.nontrivial(&(&b.text, d, history.len()));
                }
            }
            if !accepted {
                over_before = true;
            }
            history.push(json!({"input": b.text, "accepted": accepted}));
        } else {
            // not judged (may or may not parse): a prefix cut inside open constructs, or a dangling operator
            let text = if kind == 1 {
                let cut = ch.draw(b.text.len() + 1);
                let mut k = cut;
                while !b.text.is_char_boundary(k) {
                    k -= 1;
                }
                b.text[..k].to_string()
            } else {
                format!("({} and )", b.text)
            };
            st.eval();
            match catch(|| parser.parse(&text).map(|_| ()).map_err(|e| e.to_string())) {
                Err(p) => return Err(Fail::new("reused-parser-parse-panic", p, json!({"input": text, "max_nesting_depth": d, "earlier": history}))),
                Ok(r) => {
                    if r.is_err() {
                        broken_before = true;
                        st.class("reuse:malformed-input-rejected");
                    }
                    history.push(json!({"input": text, "accepted": r.is_ok(), "judged": false}));
                }
            }
        }
    }
    st.sample("reuse", || json!({"max_nesting_depth": d, "inputs_in_order": history}));
    Ok(())
}

fn shapes_total(max_len: usize) -> u64 {
    let per_len: u64 = (0..=max_len).map(|k| 4u64.pow(k as u32)).sum();
    per_len * SHAPE_VARIANTS as u64
}

fn shapes_key(mut i: u64) -> Vec<u32> {
    let variant = (i % SHAPE_VARIANTS as u64) as u32;
    i /= SHAPE_VARIANTS as u64;
    let mut n = 0usize;
    while i >= 4u64.pow(n as u32) {
        i -= 4u64.pow(n as u32);
        n += 1;
    }
    let mut k = vec![n as u32];
    for _ in 0..n {
        k.push((i % 4) as u32);
        i /= 4;
    }
    k.push(variant);
    k.push(((n as u32) + variant) % 3);
    k
}

// ---------------------------------------------------------------------------
// sub-check "positions": short sequences over the extended construct alphabet
// (deep path in 1st/2nd/3rd argument, quantifier argument, chain operands)

const MAX_POS_LEN: usize = 5;
const POS_VARIANTS: usize = 2;

fn positions_case(ch: &mut Choices<'_>, st: &mut Stats) -> CaseResult {
    let li = ch.draw(NLEAVES);
    let n = ch.draw(MAX_POS_LEN + 1);
    let steps: Vec<Step> = (0..n).map(|_| STEPS[ch.draw(STEPS.len())]).collect();
    let variant = ch.draw(POS_VARIANTS);
    let abv = (li + n + variant) % 3;
    let mut b = leaf(li, abv);
    for (k, s) in steps.iter().enumerate() {
        let v = variant * 7 + k * 5 + li;
        match apply(*s, &b, v, abv) {
            Some(nb) => b = nb,
            None => {
                st.excluded();
                st.class("inapplicable-construct");
                return Ok(());
            }
        }
    }
    classify(st, &b);
    // as a value expression: one more call around it
    if let Some((text, want, depth)) = value_wrap(&b, variant + n) {
        for d in 0..=8usize {
            check_value(&text, &want, depth, d, abv, d == depth, !b.hexname, st)?;
            if (depth == d || depth == d + 1) && kinds_count(b.kinds | K_CALL) >= 2 {
                st.nontrivial(&(&text, d));
            }
        }
        st.sample("value-expression", || json!({"value_expr": text, "depth": depth, "value": want.show()}));
    }
    if b.arr() {
        st.class("array-kind-top-level(value-only)");
        return Ok(());
    }
    st.sample(&format!("positions-depth-{}", b.depth), || json!({"filter": b.text, "depth": b.depth, "value": b.val.show()}));
    small_limits(&b, abv, st)
}

fn positions_total(max_len: usize) -> u64 {
    let seqs: u64 = (0..=max_len).map(|k| (STEPS.len() as u64).pow(k as u32)).sum();
    seqs * NLEAVES as u64 * POS_VARIANTS as u64
}

fn positions_key(mut i: u64) -> Vec<u32> {
    let variant = (i % POS_VARIANTS as u64) as u32;
    i /= POS_VARIANTS as u64;
    let li = (i % NLEAVES as u64) as u32;
    i /= NLEAVES as u64;
    let base = STEPS.len() as u64;
    let mut n = 0usize;
    while i >= base.pow(n as u32) {
        i -= base.pow(n as u32);
        n += 1;
    }
    let mut k = vec![li, n as u32];
    for _ in 0..n {
        k.push((i % base) as u32);
        i /= base;
    }
    k.push(variant);
    k
}

// ---------------------------------------------------------------------------
// random deep shapes

const BIG_LIMITS: [usize; 5] = [16, 64, 128, 129, 200];

/// A random shape of nesting depth exactly `target` (>= 3), Bool at the top;
/// `top_chain`: the outermost node may be an and/or/xor chain.
fn gen_deep(draw: &mut dyn FnMut(usize) -> usize, target: usize, abv: usize, top_chain: bool) -> Built {
    let mut b = leaf(draw(NLEAVES), abv);
    while b.depth < target {
        let rem = target - b.depth;
        if b.chain {
            b = apply(Step::P, &b, draw(2), abv).unwrap();
            continue;
        }
        let arr = b.arr();
        // candidate constructs by remaining budget and kind
        let mut cands: Vec<(Step, usize)> = Vec::new();
        if rem == 1 {
            // the last construct must leave a Bool
            if arr {
                cands.extend([(Step::Q, 3), (Step::CB, 3), (Step::Cnt, 1)]);
            } else {
                cands.extend([(Step::P, 3), (Step::N, 3), (Step::CB, 3), (Step::Pick1, 1)]);
            }
        } else {
            cands.extend([(Step::P, 4), (Step::N, 4), (Step::CB, 3), (Step::CA, 3)]);
            if arr {
                cands.extend([(Step::Q, 4), (Step::Cnt, 1)]);
            } else {
                cands.extend([(Step::Pick1, 1), (Step::Pick2, 1), (Step::Pick3, 1)]);
            }
            // a chain costs no depth but must be parenthesised next (rem >= 2 leaves room)
            cands.extend([(Step::ChainL, 1), (Step::ChainR, 1), (Step::ChainM, 1)]);
        }
        let total: usize = cands.iter().map(|c| c.1).sum();
        let mut x = draw(total);
        let mut step = cands[0].0;
        for (s, w) in &cands {
            if x < *w {
                step = *s;
                break;
            }
            x -= *w;
        }
        let v = draw(12);
        b = apply(step, &b, v, abv).expect("candidate construct applies");
    }
    assert!(!b.chain);
    if top_chain && draw(4) == 3 {
        let step = [Step::ChainL, Step::ChainR, Step::ChainM][draw(3)];
        b = apply(step, &b, draw(12), abv).unwrap();
    }
    assert_eq!(b.depth, target);
    assert!(!b.arr());
    b
}

fn deep_case(ch: &mut Choices<'_>, st: &mut Stats) -> CaseResult {
    let d = BIG_LIMITS[ch.draw(BIG_LIMITS.len())];
    let target = d - 1 + ch.draw(3);
    let abv = ch.draw(3);
    let as_value = ch.chance(1, 4);
    let rel = ["depth=limit-1", "depth=limit", "depth=limit+1"][target + 1 - d];
    if as_value {
        let wrap = ch.draw(3);
        let inner = gen_deep(&mut |n| ch.draw(n), target - 1, abv, false);
        let (text, want, depth) = value_wrap(&inner, wrap).unwrap();
        assert_eq!(depth, target);
        st.class(&format!("deep-value-limit-{d}-{rel}"));
        if kinds_count(inner.kinds | K_CALL) >= 2 && target >= d {
            st.nontrivial(&(&text, d));
        }
        return check_value(&text, &want, depth, d, abv, true, !inner.hexname, st);
    }
    let b = gen_deep(&mut |n| ch.draw(n), target, abv, true);
    st.class(&format!("deep-filter-limit-{d}-{rel}"));
    classify(st, &b);
    if kinds_count(b.kinds) >= 2 && target >= d {
        st.nontrivial(&(&b.text, d));
    }
    if d == 16 {
        st.sample("deep-16", || json!({"filter": b.text, "depth": b.depth, "limit": d}));
    }
    check_filter(&b, d, abv, true, st)
}

// ---------------------------------------------------------------------------
// consequence clause: bounded recursion, in a child process

/// Stack granted per nesting level (KiB); the thread gets `KIB x (d + 8)`.
pub const STACK_KIB_PER_LEVEL: usize = 64;
const STACK_LIMITS: [usize; 4] = [16, 64, 128, 200];

fn stack_kib() -> usize {
    // calibration only (C13_STACK_KIB=... to find the real need); the check itself uses the constant
    std::env::var("C13_STACK_KIB").ok().and_then(|s| s.parse().ok()).unwrap_or(STACK_KIB_PER_LEVEL)
}

/// Draws are `raw % n` here (identical in exact and random mode): the cases of
/// this sub-check are explicit keys, run without shrinking, because every
/// evaluation costs a process.
fn stack_case(ch: &mut Choices<'_>, st: &mut Stats) -> CaseResult {
    let mut draw = |n: usize| ch.raw() as usize % n;
    let d = STACK_LIMITS[draw(STACK_LIMITS.len())];
    let abv = draw(3);
    let mut lines = String::new();
    let mut wants: Vec<(String, String)> = Vec::new();
    for _ in 0..4 {
        let b = gen_deep(&mut draw, d, abv, true);
        classify(st, &b);
        if kinds_count(b.kinds) >= 2 {
            st.nontrivial(&(&b.text, d, "stack"));
        }
        lines.push_str(&format!("{d}\tF\t{abv}\t{}\n", b.text));
        wants.push((b.text.clone(), b.val.to_mval().show().to_string()));
    }
    for _ in 0..2 {
        let wrap = draw(3);
        let b = gen_deep(&mut draw, d - 1, abv, false);
        let (text, want, depth) = value_wrap(&b, wrap).unwrap();
        assert_eq!(depth, d);
        lines.push_str(&format!("{d}\tV\t{abv}\t{text}\n"));
        wants.push((text, want.show().to_string()));
    }
    let kib = stack_kib().to_string();
    let (code, sig, out, err) = spawn_child(&["c13", "stack", &kib], &[], Some(lines.as_bytes()));
    let show = |extra: Value| {
        json!({
            "max_nesting_depth": d,
            "stack_bytes": stack_kib() * 1024 * (d + 8),
            "filters": wants.iter().map(|w| w.0.clone()).collect::<Vec<_>>(),
            "detail": extra,
        })
    };
    st.evals_n(wants.len() as u64);
    st.class(&format!("stack-limit-{d}"));
    if code != Some(0) {
        let tail = String::from_utf8_lossy(&err);
        let tail: String = tail.chars().rev().take(600).collect::<String>().chars().rev().collect();
        let done = String::from_utf8_lossy(&out).lines().count();
        return Err(Fail::new(
            "bounded-recursion-abnormal-exit",
            format!(
                "processing accepted expression #{done} (0-based; {}) of nesting depth {d} on a {} KiB stack ended abnormally (exit code {code:?}, signal {sig:?})",
                wants.get(done).map(|w| w.0.as_str()).unwrap_or("?"),
                stack_kib() * (d + 8)
            ),
            show(json!({"stderr_tail": tail, "stdout": String::from_utf8_lossy(&out)})),
        ));
    }
    let out = String::from_utf8_lossy(&out).to_string();
    let got: Vec<&str> = out.lines().collect();
    if got.len() != wants.len() {
        return Err(Fail::new("child-protocol", format!("child printed {} lines for {} inputs", got.len(), wants.len()), show(json!(out))));
    }
    for (g, (text, want)) in got.iter().zip(&wants) {
        let expect = format!("OK\t{want}");
        if *g != expect {
            return Err(Fail::new(
                if g.starts_with("OK") { "stack-value-mismatch" } else { "stack-step-failed" },
                format!("child reported {g:?}, expected {expect:?}"),
                show(json!({"filter": text})),
            ));
        }
    }
    Ok(())
}

fn child_work(d: usize, kind: &str, abv: usize, text: &str) -> Result<String, String> {
    use std::hash::{Hash, Hasher};
    let scheme: &Scheme = &SCHEME;
    let parser = parser_for(scheme, d, text);
    let ec = RECIPE.make_ctx(scheme, &mctx(abv), &ListState::new());
    let mut h = std::collections::hash_map::DefaultHasher::new();
    if kind == "F" {
        let ast = parser.parse(text).map_err(|e| format!("parse: {e}"))?;
        let js = serde_json::to_string(&ast).map_err(|e| format!("serialize: {e}"))?;
        ast.hash(&mut h);
        let copy = ast.clone();
        if copy != ast {
            return Err("clone differs from the original".into());
        }
        let mut h2 = std::collections::hash_map::DefaultHasher::new();
        copy.hash(&mut h2);
        if h.finish() != h2.finish() {
            return Err("hash of the clone differs".into());
        }
        drop(copy);
        let filter = ast.compile();
        let r = filter.execute(&ec).map_err(|e| format!("execute: {e}"))?;
        drop(filter);
        let _ = js.len();
        Ok(json!(r).to_string())
    } else {
        let ast = parser.parse_value(text).map_err(|e| format!("parse_value: {e}"))?;
        let js = serde_json::to_string(&ast).map_err(|e| format!("serialize: {e}"))?;
        ast.hash(&mut h);
        let copy = ast.clone();
        if copy != ast {
            return Err("clone differs from the original".into());
        }
        drop(copy);
        let fv = ast.compile();
        let r = fv.execute(&ec).map_err(|e| format!("execute: {e}"))?;
        let r = r.map(|v| MVal::from_lhs(&v)).map_err(|t| format!("absent value of type {t:?}"))?;
        drop(fv);
        let _ = js.len();
        Ok(r.show().to_string())
    }
}


// ---------------------------------------------------------------------------
// far over the limit: one construct (or a pair) repeated so often that the excess over the limit crosses the
// widths of narrow counters (2^8, 2^16, 2^17).  A nesting count kept in, or passed through, a narrower integer
// wraps around there; by the property every one of these inputs has nesting > d and must be rejected.

const FAR_UNITS: [(&str, &str, usize); 7] = [("(", ")", 1), ("not ", "", 1), ("!", "", 1), ("b2b(", ")", 1), ("!(", ")", 2), ("any(b2a(", "))", 2), ("not not(", ")", 3)];
const FAR_LIMITS: [usize; 6] = [0, 1, 7, 128, 255, 256];

fn far_depths(d: usize) -> Vec<usize> {
    let mut v = vec![d + 1, d + 2, d + 255, d + 256, d + 257, 65535, 65536, 65537, d + 65535, d + 65536, d + 65537, 131072, 131072 + d, 131073 + d, 196608 + d];
    v.retain(|x| *x > d);
    v.sort();
    v.dedup();
    v
}

fn far_text(unit: usize, levels: usize, value: bool) -> (String, usize) {
    let (pre, suf, per) = FAR_UNITS[unit % FAR_UNITS.len()];
    let n = levels.div_ceil(per);
    let mut t = String::with_capacity(n * (pre.len() + suf.len()) + 16);
    if value {
        t.push_str("b2b(");
    }
    for _ in 0..n {
        t.push_str(pre);
    }
    t.push('t');
    for _ in 0..n {
        t.push_str(suf);
    }
    if value {
        t.push(')');
    }
    (t, n * per + value as usize)
}

/// One case = one limit d and one unit: every far depth, as a filter and as a value expression, parsed in a child
/// process (an engine that accepted such an input would recurse that deep).
fn far_case(ch: &mut Choices<'_>, st: &mut Stats) -> CaseResult {
    let d = FAR_LIMITS[ch.draw(FAR_LIMITS.len())];
    let unit = ch.draw(FAR_UNITS.len());
    let mut lines = String::new();
    let mut specs = Vec::new();
    for levels in far_depths(d) {
        for value in [false, true] {
            let (_, depth) = far_text(unit, levels, value);
            lines.push_str(&format!("{d}\t{unit}\t{levels}\t{}\n", value as u8));
            specs.push((levels, value, depth));
        }
    }
    let (code, sig, out, err) = spawn_child(&["c13", "far"], &[], Some(lines.as_bytes()));
    let unit_text = format!("{}t{}", FAR_UNITS[unit].0, FAR_UNITS[unit].1);
    let show = |extra: Value| json!({"max_nesting_depth": d, "repeated_unit": unit_text, "detail": extra});
    st.evals_n(specs.len() as u64);
    st.class(&format!("far-limit-{d}"));
    st.class(&format!("far-unit-{}", FAR_UNITS[unit].0.trim()));
    let out = String::from_utf8_lossy(&out).to_string();
    let got: Vec<&str> = out.lines().collect();
    if code != Some(0) || got.len() != specs.len() {
        let tail = String::from_utf8_lossy(&err);
        let tail: String = tail.chars().rev().take(400).collect::<String>().chars().rev().collect();
        let (levels, value, depth) = specs.get(got.len()).copied().unwrap_or((0, false, 0));
        return Err(Fail::new(
            "far-over-limit-abnormal-exit",
            format!("parsing the unit repeated to nesting {depth} (requested {levels}, value expression: {value}) with limit {d} ended abnormally (exit code {code:?}, signal {sig:?}) instead of returning an error"),
            show(json!({"stderr_tail": tail, "answers_before": got.len()})),
        ));
    }
    for (g, (levels, value, depth)) in got.iter().zip(&specs) {
        st.nontrivial(&(d, unit, levels, value));
        if g.starts_with("ERR") {
            // no thread could be started for this input: nothing was decided
            st.excluded();
            continue;
        }
        if *g != "REJ" {
            return Err(Fail::new(
                if g.starts_with("ACC") { "far-over-limit-accepted" } else { "far-over-limit-panic" },
                format!("limit {d}: the unit repeated to nesting {depth} (value expression: {value}) was not rejected: {g}"),
                show(json!({"nesting": depth})),
            ));
        }
    }
    st.sample("far", || json!({"max_nesting_depth": d, "repeated_unit": unit_text, "nestings": specs.iter().map(|s| s.2).collect::<Vec<_>>()}));
    Ok(())
}

fn far_child() -> i32 {
    use std::io::Read;
    let mut input = String::new();
    if std::io::stdin().read_to_string(&mut input).is_err() {
        return 2;
    }
    let _ = &*SCHEME;
    for line in input.lines() {
        let p: Vec<usize> = line.split('\t').filter_map(|x| x.parse().ok()).collect();
        if p.len() != 4 {
            println!("ERR bad line");
            continue;
        }
        let (d, unit, levels, value) = (p[0], p[1], p[2], p[3] == 1);
        // the unchanged engine gives up at level d + 1; the stack is only there so that an engine that does not
        // answers "accepted" instead of dying (reserved, not touched)
        let work = move || {
            std::panic::catch_unwind(|| {
                let (text, _) = far_text(unit, levels, value);
                let parser = parser_for(&SCHEME, d, &text);
                if value { parser.parse_value(&text).map(|_| ()).map_err(|e| e.to_string()) } else { parser.parse(&text).map(|_| ()).map_err(|e| e.to_string()) }
            })
        };
        // a large reservation where the system grants it, smaller ones otherwise (the unchanged engine needs none of it)
        let mut h = std::thread::Builder::new().stack_size(3 << 30).spawn(work);
        for shift in [29u32, 26, 23] {
            if h.is_err() {
                h = std::thread::Builder::new().stack_size(1 << shift).spawn(work);
            }
        }
        match h.map(|h| h.join()) {
            Ok(Ok(Ok(Ok(())))) => println!("ACC"),
            Ok(Ok(Ok(Err(_)))) => println!("REJ"),
            Ok(Ok(Err(p))) | Ok(Err(p)) => println!("PANIC {}", panic_message(&p).replace('\n', " | ")),
            Err(e) => println!("ERR cannot spawn thread: {e}"),
        }
    }
    0
}

/// `wfcheck --child c13 stack <KiB per level>` (`args` = what follows "c13");
/// stdin: lines `d \t F|V \t abv \t text`.
pub fn child(args: &[String]) -> i32 {
    use std::io::Read;
    if args.first().map(|s| s.as_str()) == Some("far") {
        return far_child();
    }
    if args.first().map(|s| s.as_str()) != Some("stack") {
        return 2;
    }
    let kib: usize = args.get(1).and_then(|s| s.parse().ok()).unwrap_or(STACK_KIB_PER_LEVEL);
    let mut input = String::new();
    if std::io::stdin().read_to_string(&mut input).is_err() {
        return 2;
    }
    // build the scheme on the main thread
    let _ = &*SCHEME;
    for line in input.lines() {
        let parts: Vec<&str> = line.splitn(4, '\t').collect();
        if parts.len() != 4 {
            println!("ERR\tbad line");
            continue;
        }
        let d: usize = parts[0].parse().unwrap_or(0);
        let kind = parts[1].to_string();
        let abv: usize = parts[2].parse().unwrap_or(0);
        let text = parts[3].to_string();
        let stack = kib * 1024 * (d + 8);
        let h = std::thread::Builder::new().stack_size(stack).spawn(move || {
            std::panic::catch_unwind(|| child_work(d, &kind, abv, &text))
        });
        let res = match h {
            Err(e) => Err(format!("cannot spawn thread: {e}")),
            Ok(h) => match h.join() {
                Ok(Ok(r)) => r,
                Ok(Err(p)) | Err(p) => Err(format!("panic: {}", panic_message(&p))),
            },
        };
        match res {
            Ok(v) => println!("OK\t{v}"),
            Err(e) => println!("ERR\t{}", e.replace('\n', " | ")),
        }
    }
    0
}

// ---------------------------------------------------------------------------

pub fn subs() -> Vec<Sub> {
    vec![
        Sub { name: "shapes", f: Box::new(shapes_case) },
        Sub { name: "reuse", f: Box::new(reuse_case) },
        Sub { name: "positions", f: Box::new(positions_case) },
        Sub { name: "deep", f: Box::new(deep_case) },
        Sub { name: "stack", f: Box::new(stack_case) },
        Sub { name: "far", f: Box::new(far_case) },
    ]
}

pub fn run(run: &Run) {
    run.rule(
        "shapes: EVERY sequence over {paren, not, any/all, call} up to length 6 (quick) / 9 (thorough), typed by propagating Bool/Array(Bool) \
         through the adapters b2b/b2a/a2b/a2a (untypeable sequences counted as excluded), x 4 spelling variants x every limit d in 0..=8; \
         positions: every sequence up to length 3 / 5 over 12 constructs (the four above + pick() with the deep path in its 1st/2nd/3rd argument, cnt(), \
         and/or/xor chains with the deep path as left/middle/right operand) over 10 leaves (t, f, ab, s==\"x\", sa[*]==\"x\", lower(idb(sa[*]))==\"y\", and the empty-argument-list calls yes(), nowi()==42, optb( )==\"dflt\", optb(\"q\")==\"dflt\") \
         x d in 0..=8, as a filter and wrapped in one more call through parse_value; \
         reuse: ONE parser (d in 0..6, 128) fed 2..7 inputs in a row - well-typed shapes (judged as above) interleaved with prefixes cut inside open constructs and dangling operators (only: no panic); earlier inputs must not change later verdicts; \
         deep: random shapes of depth d-1, d, d+1 for d in {16, 64, 128 (default parser, no setter), 129, 200}, 1/4 of them through parse_value; \
         stack: 4 filters + 2 value expressions of depth exactly d in {16, 64, 128, 200} parsed, serialised, hashed, cloned, compiled, executed and dropped on a \
         thread with a stack of 64 KiB x (d + 8) in a child process; \
         far: one construct or pair ( \"(\", \"not \", \"!\", \"b2b(\", \"!(\", \"any(b2a(\", \"not not(\" ) repeated to nesting d+1, d+2, d+255..257, 65535..65537, d+65535..65537, 131072(+d), 196608+d for d in {0,1,7,128,255,256}, as a filter and inside one more call through parse_value, complete, in a child process: every one must be rejected (counter wrap-around); \
         oracle: Ok iff depth <= d, otherwise the nesting error; accepted filters evaluate to the value known by construction; \
         non-trivial = depth in {d, d+1} and the shape uses >= 2 kinds of nesting construct; distinct by (text, d)",
    );
    run.assume("nesting depth of a generated filter = number of enclosing parentheses / not / any-all / call argument lists on its deepest path (known by construction)");
    run.assume(&format!(
        "bounded recursion is decided against a budget of {STACK_KIB_PER_LEVEL} KiB of stack per permitted nesting level, stack = budget x (d + 8); measured need in this profile (debug assertions, opt-level 2): 1920 generated expressions (depth 16..200) all pass with 3 KiB per level, overflow starts at 2 KiB, so the budget has > 20x headroom"
    ));
    run.note("stack_kib_per_level", json!(STACK_KIB_PER_LEVEL));
    run.note("stack_kib_per_level_measured_need", json!("< 3 (C13_STACK_KIB=3 passes, =2 overflows)"));
    run.assume("over-limit shapes containing a call of b2b/b2a/a2b/a2a: only rejection is asserted, the error class is recorded (class rejected-over-limit-with-another-error): in argument position a call whose name starts like a hex literal goes through a fallback of the argument lexer that reports 'unrecognised input' instead of the inner error");
    let subs = subs();
    run_regressions(run, &subs);
    let f = |n: &str| find_sub(&subs, n).unwrap();

    // development aid: VERIF_ONLY_SUB=<name> runs a single sub-check
    let only = std::env::var("VERIF_ONLY_SUB").ok();
    let want = |n: &str| only.as_deref().map(|o| o == n).unwrap_or(true);
    if want("shapes") {
        let l = run.tier.pick(6, MAX_SHAPE_LEN);
        run.enumerate("shapes", shapes_total(l), &shapes_key, &*f("shapes").f);
    }
    if want("positions") {
        let l = run.tier.pick(3, MAX_POS_LEN);
        run.enumerate("positions", positions_total(l), &positions_key, &*f("positions").f);
    }
    if want("reuse") {
        run.random("reuse", run.tier.pick(30_000, 1_000_000), 200, &*f("reuse").f);
    }
    if want("deep") {
        run.random("deep", run.tier.pick(3_000, 200_000), 450, &*f("deep").f);
    }
    if want("stack") {
        // explicit keys derived from (seed, case, position); no shrinking
        let seed = run.seed;
        let key = move |i: u64| -> Vec<u32> { (0..2600u32).map(|j| fingerprint(&(seed, i, j)) as u32).collect() };
        run.enumerate("stack", run.tier.pick(32, 640), &key, &*f("stack").f);
    }
    if want("far") {
        // complete: every limit x every unit (each case covers every far depth, as a filter and as a value expression)
        let total = (FAR_LIMITS.len() * FAR_UNITS.len()) as u64;
        let key = |i: u64| -> Vec<u32> { vec![(i % FAR_LIMITS.len() as u64) as u32, (i / FAR_LIMITS.len() as u64) as u32] };
        run.enumerate("far", total, &key, &*f("far").f);
    }
}

pub mod ast;
pub mod choices;
pub mod engine;
pub mod eval;
pub mod funcs;
pub mod genr;
pub mod lists;
pub mod model;
pub mod runner;
pub mod rx;
pub mod scheme;
pub mod typeck;

pub mod c01;
pub mod c02;
pub mod c03;
pub mod c04;
pub mod c05;
pub mod c06;
pub mod c07;
pub mod c08;
pub mod c09;
pub mod c10;
pub mod c11;
pub mod c12;
pub mod c13;
pub mod c14;
pub mod c15;
pub mod c16;
pub mod c17;
pub mod c18;
pub mod c19;
pub mod c20;

use runner::{Run, Sub};

pub const PROPS: &[&str] = &["C01", "C02", "C03", "C04", "C05", "C06", "C07", "C08", "C09", "C10", "C11", "C12", "C13", "C14", "C15", "C16", "C17", "C18", "C19", "C20"];

pub fn subs_of(prop: &str) -> Option<Vec<Sub>> {
    match prop {
        "C01" => Some(c01::subs()),
        "C02" => Some(c02::subs()),
        "C03" => Some(c03::subs()),
        "C04" => Some(c04::subs()),
        "C05" => Some(c05::subs()),
        "C06" => Some(c06::subs()),
        "C07" => Some(c07::subs()),
        "C08" => Some(c08::subs()),
        "C09" => Some(c09::subs()),
        "C10" => Some(c10::subs()),
        "C11" => Some(c11::subs()),
        "C12" => Some(c12::subs()),
        "C13" => Some(c13::subs()),
        "C14" => Some(c14::subs()),
        "C15" => Some(c15::subs()),
        "C16" => Some(c16::subs()),
        "C17" => Some(c17::subs()),
        "C18" => Some(c18::subs()),
        "C19" => Some(c19::subs()),
        "C20" => Some(c20::subs()),
        _ => None,
    }
}

pub fn run_prop(run: &Run) -> bool {
    match run.prop {
        "C01" => c01::run(run),
        "C02" => c02::run(run),
        "C03" => c03::run(run),
        "C04" => c04::run(run),
        "C05" => c05::run(run),
        "C06" => c06::run(run),
        "C07" => c07::run(run),
        "C08" => c08::run(run),
        "C09" => c09::run(run),
        "C10" => c10::run(run),
        "C11" => c11::run(run),
        "C12" => c12::run(run),
        "C13" => c13::run(run),
        "C14" => c14::run(run),
        "C15" => c15::run(run),
        "C16" => c16::run(run),
        "C17" => c17::run(run),
        "C18" => c18::run(run),
        "C19" => c19::run(run),
        "C20" => c20::run(run),
        _ => return false,
    }
    true
}

/// Entry point for helper child processes (`wfcheck --child <mode> ...`).
pub fn child_main(args: &[String]) -> i32 {
    match args.first().map(|s| s.as_str()) {
        Some("c05") => c05::child(&args[1..]),
        Some("c10") => c10::child(&args[1..]),
        Some("c13") => c13::child(&args[1..]),
        Some("c18") => c18::child(&args[1..]),
        Some("c19") => c19::child(&args[1..]),
        Some("c20") => c20::child(&args[1..]),
        _ => 2,
    }
}

/// Replay a raw fuzzer artifact (bytes) for the property whose target produced it.
pub fn replay_raw(prop: &str, bytes: &[u8]) -> Option<runner::CaseResult> {
    let mut st = runner::Stats::default();
    match prop {
        "C05" => {
            let s = c04::matrix_recipe().build();
            Some(c05::check_input(&s, &String::from_utf8_lossy(bytes), &mut st, "artifact"))
        }
        "C14" => Some(c14::check_document(bytes)),
        _ => None,
    }
}

pub mod ast;
pub mod choices;
pub mod engine;
pub mod eval;
pub mod funcs;
pub mod genr;
pub mod lists;
pub mod model;
pub mod runner;
pub mod rx;
pub mod scheme;
pub mod typeck;

pub mod c01;
pub mod c02;
pub mod c03;
pub mod c04;

use runner::{Run, Sub};

pub const PROPS: &[&str] = &["C01", "C02", "C03", "C04"];

pub fn subs_of(prop: &str) -> Option<Vec<Sub>> {
    match prop {
        "C01" => Some(c01::subs()),
        "C02" => Some(c02::subs()),
        "C03" => Some(c03::subs()),
        "C04" => Some(c04::subs()),
        _ => None,
    }
}

pub fn run_prop(run: &Run) -> bool {
    match run.prop {
        "C01" => c01::run(run),
        "C02" => c02::run(run),
        "C03" => c03::run(run),
        "C04" => c04::run(run),
        _ => return false,
    }
    true
}

/// Entry point for helper child processes (`wfcheck --child <mode> ...`).
pub fn child_main(args: &[String]) -> i32 {
    let _ = args;
    2
}

//! C19 - the panic catcher returns results or panic text and never leaks state.
//!
//! Histories over {enable, disable, enter catch_panic, return, panic(unique
//! message), set_hook again, set fallback Continue, get_backtrace} are executed
//! for real, each on a fresh thread, inside helper processes (the panic hook is
//! process-global) in which a sentinel hook was installed before the catcher's
//! hook.  The oracle is an abstract model written from the property statement:
//! enabled flag, stack of frames with a "catching" bit fixed at entry, level =
//! number of catching frames, messages the sentinel must have seen.
//!
//! Child protocol (`wfcheck --child c19 batch`): stdin holds one case per line
//! (`h <ops>` or `p <opsA> <opsB> <schedule>`), the child prints `S <i>` before
//! case i, `F <i> <json>` as soon as a check fails and `D` at the end; a child
//! that dies without `D` is a violation attributed to the last started case.

use crate::choices::Choices;
use crate::runner::*;
use proptest::collection::vec as pvec;
use proptest::prelude::any;
use proptest::strategy::{Strategy, ValueTree};
use proptest::test_runner::{Config, RngSeed, TestRunner};
use serde_json::{Value, json};
use std::cell::RefCell;
use std::collections::HashMap;
use std::panic::{AssertUnwindSafe, catch_unwind};
use std::sync::atomic::{AtomicBool, Ordering};
use std::sync::mpsc::{Receiver, Sender, channel};
use wirefilter::{
    PanicCatcherFallbackMode as Mode, catch_panic, panic_catcher_disable, panic_catcher_enable,
    panic_catcher_get_backtrace, panic_catcher_set_fallback_mode, panic_catcher_set_hook,
};

// ---------------------------------------------------------------------------
// alphabet and abstract model (shared by parent: normalisation, classification;
// and child: oracle)

const ENABLE: u8 = 0;
const DISABLE: u8 = 1;
const ENTER: u8 = 2;
const RETURN: u8 = 3;
const PANIC: u8 = 4;
const SETHOOK: u8 = 5;
const SETCONT: u8 = 6;
const BACKTRACE: u8 = 7;
/// set fallback mode Abort immediately followed by Continue (random histories only)
const ABORTCONT: u8 = 8;
const NOPS: usize = 9;
const NAMES: [&str; NOPS] = ["enable", "disable", "enter", "return", "panic", "set_hook", "set_continue", "get_backtrace", "set_abort_then_continue"];
/// weights of the ops in random histories
const WEIGHTS: [usize; NOPS] = [4, 3, 7, 4, 6, 1, 1, 2, 1];

#[derive(Clone, Default)]
struct Model {
    enabled: bool,
    /// (frame id, catching = enabled at entry)
    frames: Vec<(u32, bool)>,
    level: u64,
    next_id: u32,
    /// positions of the panics the sentinel hook must have received, in order
    sentinel: Vec<usize>,
    /// position of the last panic recorded by the catcher (level > 0)
    recorded: Option<usize>,
    /// a level-0 panic happened since: the statement does not say whether
    /// get_backtrace reflects it
    recorded_uncertain: bool,
}

enum Effect {
    Plain,
    Entered(u32),
    Returned(u32),
    /// frame that catches the panic, None = thread top
    Panicked(Option<u32>),
}

impl Model {
    fn can(&self, op: u8) -> bool {
        op != RETURN || !self.frames.is_empty()
    }

    fn step(&mut self, op: u8, pos: usize) -> Effect {
        match op {
            ENABLE => {
                self.enabled = true;
                Effect::Plain
            }
            DISABLE => {
                self.enabled = false;
                Effect::Plain
            }
            ENTER => {
                let id = self.next_id;
                self.next_id += 1;
                self.frames.push((id, self.enabled));
                if self.enabled {
                    self.level += 1;
                }
                Effect::Entered(id)
            }
            RETURN => {
                let (id, catching) = self.frames.pop().expect("return without frame");
                if catching {
                    self.level -= 1;
                }
                Effect::Returned(id)
            }
            PANIC => {
                // unwinds through transparent frames to the innermost catching one
                let mut landing = None;
                while let Some((id, catching)) = self.frames.pop() {
                    if catching {
                        self.level -= 1;
                        landing = Some(id);
                        break;
                    }
                }
                if landing.is_some() {
                    self.recorded = Some(pos);
                    self.recorded_uncertain = false;
                } else {
                    debug_assert_eq!(self.level, 0);
                    self.sentinel.push(pos);
                    self.recorded_uncertain = true;
                }
                Effect::Panicked(landing)
            }
            _ => Effect::Plain,
        }
    }
}

/// Drops `return`s that have no open frame, then closes the open frames and
/// appends the final probe panic.  Returns (explicit ops, full ops).
fn normalize(raw: &[u8]) -> (Vec<u8>, Vec<u8>) {
    let mut m = Model::default();
    let mut explicit = Vec::new();
    for &op in raw {
        if m.can(op) {
            m.step(op, explicit.len());
            explicit.push(op);
        }
    }
    let mut full = explicit.clone();
    for _ in 0..m.frames.len() {
        full.push(RETURN);
    }
    full.push(PANIC);
    (explicit, full)
}

fn ops_string(ops: &[u8]) -> String {
    ops.iter().map(|o| (b'0' + o) as char).collect()
}

fn parse_ops(s: &str) -> Option<Vec<u8>> {
    s.bytes().map(|b| if (b'0'..b'0' + NOPS as u8).contains(&b) { Some(b - b'0') } else { None }).collect()
}

fn show_ops(ops: &[u8]) -> Value {
    json!(ops.iter().map(|o| NAMES[*o as usize]).collect::<Vec<_>>())
}

#[derive(Default, Hash)]
struct Summary {
    caught: u32,
    caught_through_transparent: u32,
    transparent_to_top: u32,
    outside: u32,
    max_level: u64,
    max_depth: usize,
    disable_in_catching: bool,
    enable_in_transparent: bool,
    step_after_caught: bool,
    backtrace_known: u32,
}

impl Summary {
    fn nontrivial(&self) -> bool {
        (self.caught >= 1 && self.transparent_to_top + self.outside >= 1) || self.max_level >= 2
    }
}

/// Classification of a full history (the final probe is not counted).
fn summarize(full: &[u8]) -> Summary {
    let mut m = Model::default();
    let mut s = Summary::default();
    for (pos, &op) in full[..full.len() - 1].iter().enumerate() {
        let depth_before = m.frames.len();
        let level_before = m.level;
        let inner_transparent = m.frames.last().map(|f| !f.1).unwrap_or(false);
        if s.caught > 0 {
            s.step_after_caught = true;
        }
        if op == DISABLE && m.level > 0 && m.enabled {
            s.disable_in_catching = true;
        }
        if op == ENABLE && inner_transparent && !m.enabled {
            s.enable_in_transparent = true;
        }
        if op == BACKTRACE && m.recorded.is_some() && !m.recorded_uncertain {
            s.backtrace_known += 1;
        }
        match m.step(op, pos) {
            Effect::Panicked(Some(_)) => {
                s.caught += 1;
                if inner_transparent {
                    s.caught_through_transparent += 1;
                }
            }
            Effect::Panicked(None) => {
                if depth_before > 0 {
                    s.transparent_to_top += 1;
                } else {
                    s.outside += 1;
                }
                debug_assert_eq!(level_before, 0);
            }
            _ => {}
        }
        s.max_level = s.max_level.max(m.level);
        s.max_depth = s.max_depth.max(m.frames.len());
    }
    s
}

fn classify_history(st: &mut Stats, full: &[u8], s: &Summary) {
    st.eval();
    if s.caught > 0 {
        st.class("h:panic-caught");
    }
    if s.caught >= 2 {
        st.class("h:two-or-more-caught");
    }
    if s.caught_through_transparent > 0 {
        st.class("h:caught-through-transparent-frame");
    }
    if s.transparent_to_top > 0 {
        st.class("h:panic-through-transparent-to-top");
    }
    if s.outside > 0 {
        st.class("h:panic-outside");
    }
    if s.max_level >= 2 {
        st.class("h:catching-nesting>=2");
    }
    if s.max_level >= 3 {
        st.class("h:catching-nesting>=3");
    }
    if s.max_depth >= 2 && s.max_level < s.max_depth as u64 {
        st.class("h:mixed-transparent-and-catching-frames");
    }
    if s.disable_in_catching {
        st.class("h:disable-inside-catching-frame");
    }
    if s.enable_in_transparent {
        st.class("h:enable-inside-transparent-frame");
    }
    if s.step_after_caught {
        st.class("h:steps-after-a-caught-panic");
    }
    if s.backtrace_known > 0 {
        st.class("h:get_backtrace-after-caught-panic");
    }
    if full.iter().any(|o| *o == ABORTCONT) {
        st.class("h:abort-then-continue");
    }
    if s.nontrivial() {
        st.nontrivial(full);
        st.class("h:nontrivial");
        st.sample("history-nontrivial", || show_ops(full));
    }
}

// ---------------------------------------------------------------------------
// cases: decoding from choices

struct CaseSpec {
    line: String,
    show: Value,
}

fn draw_ops(ch: &mut Choices<'_>, n: usize) -> Vec<u8> {
    (0..n).map(|_| ch.weighted(&PAIR_WEIGHTS) as u8).collect()
}

fn decode_history(ch: &mut Choices<'_>, st: &mut Stats) -> CaseSpec {
    let mut raw = Vec::new();
    while !ch.exhausted() && raw.len() < 40 {
        raw.push(ch.weighted(&WEIGHTS) as u8);
    }
    let (_, full) = normalize(&raw);
    let s = summarize(&full);
    classify_history(st, &full, &s);
    CaseSpec { line: format!("h {}", ops_string(&full)), show: json!({"history (closing returns and final probe panic appended)": show_ops(&full)}) }
}

const PAIR_MAX: usize = 8;
/// weights of the ops in random pairs (more frames and panics)
const PAIR_WEIGHTS: [usize; NOPS] = [6, 2, 7, 3, 7, 1, 1, 3, 1];

fn decode_pair(ch: &mut Choices<'_>, st: &mut Stats) -> CaseSpec {
    // each thread: optional prefix (none | enable | enable, enter), length, ops
    const PREFIX: [&[u8]; 3] = [&[], &[ENABLE], &[ENABLE, ENTER]];
    let mut ra = PREFIX[ch.draw(3)].to_vec();
    let la = ch.draw(PAIR_MAX + 1);
    ra.extend(draw_ops(ch, la));
    let mut rb = PREFIX[ch.draw(3)].to_vec();
    let lb = ch.draw(PAIR_MAX + 1);
    rb.extend(draw_ops(ch, lb));
    let (ea, fa) = normalize(&ra);
    let (eb, fb) = normalize(&rb);
    // interleaving of the explicit steps, one binary choice wherever both threads have steps left
    let mut sched = String::new();
    let (mut i, mut j) = (0, 0);
    while i < ea.len() && j < eb.len() {
        if ch.draw(2) == 0 {
            sched.push('a');
            i += 1;
        } else {
            sched.push('b');
            j += 1;
        }
    }
    while i < ea.len() {
        sched.push('a');
        i += 1;
    }
    while j < eb.len() {
        sched.push('b');
        j += 1;
    }
    // the tails (closing returns, probe) alternate
    let (mut i, mut j) = (ea.len(), eb.len());
    while i < fa.len() || j < fb.len() {
        if i < fa.len() {
            sched.push('a');
            i += 1;
        }
        if j < fb.len() {
            sched.push('b');
            j += 1;
        }
    }
    // classification: simulate both models along the schedule
    st.eval();
    let (mut ma, mut mb) = (Model::default(), Model::default());
    let (mut i, mut j) = (0, 0);
    let mut cross_level = false;
    let mut cross_enabled = false;
    let mut cross_backtrace = false;
    let mut other_caught_since = [false, false];
    let mut panic_while_other_catching = false;
    let mut switches = 0;
    let mut prev = ' ';
    for c in sched.chars() {
        if prev != ' ' && prev != c {
            switches += 1;
        }
        prev = c;
        let (me, other, ops, k) = if c == 'a' { (&mut ma, &mb, &fa, &mut i) } else { (&mut mb, &ma, &fb, &mut j) };
        if other.level > 0 {
            cross_level = true;
            if ops[*k] == PANIC {
                panic_while_other_catching = true;
            }
        }
        if other.enabled != me.enabled && ops[*k] == ENTER {
            cross_enabled = true;
        }
        let ti = if c == 'a' { 0 } else { 1 };
        if ops[*k] == BACKTRACE && me.recorded.is_some() && !me.recorded_uncertain && other_caught_since[ti] {
            cross_backtrace = true;
        }
        if let Effect::Panicked(Some(_)) = me.step(ops[*k], *k) {
            other_caught_since[1 - ti] = true;
            other_caught_since[ti] = false;
        }
        *k += 1;
    }
    if cross_level {
        st.class("p:step-while-other-thread-inside-catching-frame");
    }
    if panic_while_other_catching {
        st.class("p:panic-while-other-thread-inside-catching-frame");
    }
    if cross_enabled {
        st.class("p:enter-while-other-thread-has-opposite-enabled-flag");
    }
    if cross_backtrace {
        st.class("p:get_backtrace-after-the-other-thread-caught-a-later-panic");
    }
    if switches >= 3 {
        st.class("p:>=3-context-switches");
    }
    let sa = summarize(&fa);
    let sb = summarize(&fb);
    if sa.caught > 0 && sb.caught > 0 {
        st.class("p:both-threads-catch-a-panic");
    }
    if (sa.caught > 0 && sb.outside + sb.transparent_to_top > 0) || (sb.caught > 0 && sa.outside + sa.transparent_to_top > 0) {
        st.class("p:one-catches-other-panics-uncaught");
    }
    if cross_level || cross_enabled || cross_backtrace {
        st.nontrivial(&(&fa, &fb, &sched));
        st.class("p:nontrivial");
        st.sample("pair-nontrivial", || json!({"A": show_ops(&fa), "B": show_ops(&fb), "schedule": sched}));
    }
    CaseSpec {
        line: format!("p {} {} {}", ops_string(&fa), ops_string(&fb), sched),
        show: json!({"thread A": show_ops(&fa), "thread B": show_ops(&fb), "schedule (one letter per step)": sched}),
    }
}

// ---------------------------------------------------------------------------
// parent side: running lines in helper processes

#[derive(Clone, Debug)]
enum LineResult {
    Ok,
    Fail(String, String),
    NotRun,
}

/// Runs the lines in one child; if the child dies the rest is resubmitted (at
/// most `max_deaths` times).  Results are positional.
fn exec_lines(lines: &[String], max_deaths: usize) -> Vec<LineResult> {
    exec_lines_on(lines, max_deaths, None)
}

/// `slot`: the child pins itself to the slot-th CPU it is allowed to run on.  A
/// child runs one thread at a time, so this costs no parallelism, and it makes
/// thread creation several times cheaper when 16 children run side by side.
fn exec_lines_on(lines: &[String], max_deaths: usize, slot: Option<usize>) -> Vec<LineResult> {
    let mut res = vec![LineResult::NotRun; lines.len()];
    let mut start = 0;
    let mut deaths = 0;
    while start < lines.len() {
        let input = lines[start..].join("\n") + "\n";
        let slot_s = slot.map(|s| s.to_string()).unwrap_or_else(|| "-".to_string());
        let (code, signal, out, err) = spawn_child(&["c19", "batch", &slot_s], &[], Some(input.as_bytes()));
        let out = String::from_utf8_lossy(&out);
        let mut last_started: Option<usize> = None;
        let mut done = false;
        for l in out.lines() {
            if let Some(i) = l.strip_prefix("S ") {
                if let Ok(i) = i.trim().parse::<usize>() {
                    if let Some(p) = last_started {
                        if matches!(res[start + p], LineResult::NotRun) {
                            res[start + p] = LineResult::Ok;
                        }
                    }
                    last_started = Some(i);
                }
            } else if let Some(rest) = l.strip_prefix("F ") {
                let mut it = rest.splitn(2, ' ');
                let i = it.next().and_then(|x| x.parse::<usize>().ok());
                let v = it.next().and_then(|x| serde_json::from_str::<Value>(x).ok());
                if let (Some(i), Some(v)) = (i, v) {
                    if start + i < res.len() && !matches!(res[start + i], LineResult::Fail(..)) {
                        res[start + i] = LineResult::Fail(format!("{}:{}", kind_of(&lines[start + i]), v["sig"].as_str().unwrap_or("?")), v["msg"].as_str().unwrap_or("?").to_string());
                    }
                }
            } else if l == "D" {
                done = true;
            }
        }
        if done && code == Some(0) {
            if let Some(p) = last_started {
                if matches!(res[start + p], LineResult::NotRun) {
                    res[start + p] = LineResult::Ok;
                }
            }
            break;
        }
        // abnormal exit
        let err = String::from_utf8_lossy(&err);
        let tail: String = err.chars().rev().take(400).collect::<Vec<_>>().into_iter().rev().collect();
        let how = format!("helper process ended abnormally (exit code {code:?}, signal {signal:?}) while running this case; stderr tail: {tail:?}");
        let p = last_started.unwrap_or(0);
        if !matches!(res[start + p], LineResult::Fail(..)) {
            let kind = kind_of(&lines[start + p]);
            res[start + p] = LineResult::Fail(if signal.is_some() { format!("{kind}:child-killed-by-signal-{}", signal.unwrap()) } else { format!("{kind}:child-exited-abnormally") }, how);
        } else if let LineResult::Fail(_, m) = &mut res[start + p] {
            m.push_str(" | then: ");
            m.push_str(&how);
        }
        deaths += 1;
        start += p + 1;
        if deaths > max_deaths {
            break;
        }
    }
    res
}

fn kind_of(line: &str) -> &'static str {
    if line.starts_with('h') { "history" } else { "pair" }
}

fn run_single(spec: &CaseSpec) -> CaseResult {
    match exec_lines(std::slice::from_ref(&spec.line), 0).pop() {
        Some(LineResult::Ok) => Ok(()),
        Some(LineResult::Fail(sig, msg)) => Err(Fail::new(sig, msg, spec.show.clone())),
        _ => Err(Fail::new("child-protocol", "helper process produced no result", spec.show.clone())),
    }
}

fn history_case(ch: &mut Choices<'_>, st: &mut Stats) -> CaseResult {
    let spec = decode_history(ch, st);
    run_single(&spec)
}

fn pair_case(ch: &mut Choices<'_>, st: &mut Stats) -> CaseResult {
    let spec = decode_pair(ch, st);
    run_single(&spec)
}

const SIGABRT: i32 = 6;

/// Dedicated children for fallback mode Abort.
fn abort_case(ch: &mut Choices<'_>, st: &mut Stats) -> CaseResult {
    let variant = ch.draw(3);
    st.eval();
    st.class("abort:dedicated-child");
    let vs = variant.to_string();
    let (code, signal, out, _err) = spawn_child(&["c19", "abort", &vs], &[], None);
    let out = String::from_utf8_lossy(&out).to_string();
    let show = json!({"abort child variant": variant, "stdout": out});
    for needle in ["X-CAUGHT-OK", "Y-CAUGHT-OK", "Y-OUTSIDE-OK", "PRE-ABORT"] {
        if !out.lines().any(|l| l == needle) {
            return Err(Fail::new("abort-child-precondition", format!("line {needle} missing from the child's output (exit {code:?}, signal {signal:?})"), show));
        }
    }
    if out.lines().any(|l| l.starts_with("SURVIVED")) || signal != Some(SIGABRT) {
        return Err(Fail::new(
            "abort-mode-did-not-abort",
            format!("with fallback mode Abort a panic outside catch_panic must abort the process; exit code {code:?}, signal {signal:?}"),
            show,
        ));
    }
    Ok(())
}

/// Installation races: in a fresh process several threads call
/// `panic_catcher_set_hook()` for the first time at chosen offsets (the
/// verif-hooks pauses stretch the installer's steps) while other threads, whose
/// own installation has returned and which have catching enabled, keep catching
/// panics.  Every caught panic must come back with its own message.
const SIG_INSTALL_RACE: &str = "install-race:err-text-lacks-panic-message";

fn install_case(ch: &mut Choices<'_>, st: &mut Stats) -> CaseResult {
    // the key is a vector of raw words (a function of seed and case index; schedules do not shrink)
    let raw: Vec<u32> = (0..24).map(|_| ch.raw()).collect();
    let ch = &mut Choices::new(&raw);
    // per thread: (start offset us, pause before replacing us, pause while replacing us, catches)
    let n = ch.range(2, 5);
    let mut spec: Vec<String> = Vec::new();
    let mut late_installer = false;
    for t in 0..n {
        let start = *ch.pick(&[0u64, 0, 200, 1000, 3000]);
        let before = *ch.pick(&[0u64, 0, 500, 2000, 5000]);
        let during = *ch.pick(&[0u64, 0, 500, 2000, 5000]);
        let catches = *ch.pick(&[1usize, 5, 30, 100]);
        if t > 0 && before + during > 0 {
            late_installer = true;
        }
        spec.push(format!("{start}:{before}:{during}:{catches}"));
    }
    let arg = spec.join(",");
    st.eval();
    let (code, signal, out, err) = spawn_child(&["c19", "install", &arg], &[], None);
    let out = String::from_utf8_lossy(&out).to_string();
    let show = json!({
        "threads (start offset us : pause before replacing the hook us : pause while replacing it us : number of catch_panic calls)": spec,
        "child_stdout": out.lines().take(12).collect::<Vec<_>>(),
        "exit": code, "signal": signal,
    });
    if let Some(l) = out.lines().find(|l| l.starts_with("BAD ")) {
        return Err(Fail::new(SIG_INSTALL_RACE, format!("a thread whose panic_catcher_set_hook() had returned and which had catching enabled got: {l}"), show));
    }
    if code != Some(0) || !out.lines().any(|l| l == "DONE") {
        let tail: String = String::from_utf8_lossy(&err).lines().rev().take(5).collect::<Vec<_>>().join(" | ");
        return Err(Fail::new("install-race:child-died", format!("exit {code:?} signal {signal:?}; stderr tail: {tail}"), show));
    }
    st.class("install:child-ok");
    if late_installer {
        st.class("install:an-installer-paused-mid-installation");
        st.nontrivial(&arg);
    }
    st.sample("install", || show.clone());
    Ok(())
}

pub fn subs() -> Vec<Sub> {
    vec![
        Sub { name: "install", f: Box::new(install_case) },
        Sub { name: "history", f: Box::new(history_case) },
        Sub { name: "pair", f: Box::new(pair_case) },
        Sub { name: "abort", f: Box::new(abort_case) },
    ]
}

// ---------------------------------------------------------------------------
// parent side: the plan (all cases of a tier in a fixed order) and its execution
//
// The first caught panic in a process costs about a second (the backtrace crate
// loads the debug info), so the number of helper processes is kept small: every
// worker enumerates the whole plan, keeps the cases whose index is congruent to
// its number and runs them in ONE child.

type DecodeFn = fn(&mut Choices<'_>, &mut Stats) -> CaseSpec;

const SUBS: [(&str, DecodeFn); 2] = [("history", decode_history), ("pair", decode_pair)];

struct Item {
    index: u64,
    sub: usize,
    exact: bool,
    key: Vec<u32>,
}

struct Found {
    index: u64,
    sub: usize,
    exact: bool,
    key: Vec<u32>,
    fail: Fail,
}

/// DFS (preorder) over all canonical explicit histories over the first
/// `alphabet` ops with at most `maxlen` steps.
fn for_each_history(alphabet: u8, maxlen: usize, f: &mut dyn FnMut(&[u8])) {
    fn rec(cur: &mut Vec<u8>, m: &Model, alphabet: u8, maxlen: usize, f: &mut dyn FnMut(&[u8])) {
        f(cur);
        if cur.len() >= maxlen {
            return;
        }
        for op in 0..alphabet {
            if m.can(op) {
                let mut m2 = m.clone();
                m2.step(op, cur.len());
                cur.push(op);
                rec(cur, &m2, alphabet, maxlen, f);
                cur.pop();
            }
        }
    }
    rec(&mut Vec::new(), &Model::default(), alphabet, maxlen, f);
}

fn random_keys(seed: u64, sub: &str, n: usize, max_len: usize) -> Vec<Vec<u32>> {
    let cfg = Config { failure_persistence: None, rng_seed: RngSeed::Fixed(fingerprint(&(seed, sub, "c19"))), ..Config::default() };
    let mut runner = TestRunner::new(cfg);
    let strategy = pvec(any::<u32>(), 0..=max_len);
    (0..n).map(|_| strategy.new_tree(&mut runner).expect("new_tree").current()).collect()
}

fn for_each_interleaving(na: usize, nb: usize, f: &mut dyn FnMut(&[u32])) {
    fn rec(i: usize, j: usize, na: usize, nb: usize, cur: &mut Vec<u32>, f: &mut dyn FnMut(&[u32])) {
        if i == na || j == nb {
            f(cur);
            return;
        }
        cur.push(0);
        rec(i + 1, j, na, nb, cur, f);
        cur.pop();
        cur.push(1);
        rec(i, j + 1, na, nb, cur, f);
        cur.pop();
    }
    rec(0, 0, na, nb, &mut Vec::new(), f);
}

fn opens_catching(h: &[u8]) -> bool {
    let mut m = Model::default();
    h.iter().enumerate().any(|(i, op)| {
        m.step(*op, i);
        m.level > 0
    })
}

struct PlanCfg {
    hist_len: usize,
    hist_random: usize,
    pair_stride: u64,
    pair_offset: u64,
    pair_random: usize,
    seed: u64,
}

#[derive(Default, Clone, Copy)]
struct PlanCounts {
    hist_enum: u64,
    hist_random: u64,
    pair_domain: u64,
    pair_enum: u64,
    pair_threads: u64,
    pair_backtrace: u64,
    pair_random: u64,
}

/// Calls `emit` for every case of the plan, in a fixed order.  `want(index)`
/// says whether the caller needs the key (others are only counted).
fn plan(cfg: &PlanCfg, want: &dyn Fn(u64) -> bool, emit: &mut dyn FnMut(Item)) -> PlanCounts {
    let mut c = PlanCounts::default();
    let mut index = 0u64;
    // complete single-thread histories
    for_each_history(8, cfg.hist_len, &mut |h| {
        if want(index) {
            emit(Item { index, sub: 0, exact: true, key: h.iter().map(|o| *o as u32).collect() });
        }
        index += 1;
        c.hist_enum += 1;
    });
    // random longer histories
    for k in random_keys(cfg.seed, "history", cfg.hist_random, 30) {
        if want(index) {
            emit(Item { index, sub: 0, exact: false, key: k });
        }
        index += 1;
        c.hist_random += 1;
    }
    // two threads: interleavings of short histories over the 5-op alphabet
    let mut hs: Vec<Vec<u8>> = Vec::new();
    for_each_history(5, 3, &mut |h| hs.push(h.to_vec()));
    c.pair_threads = hs.len() as u64;
    for a in &hs {
        for b in &hs {
            for_each_interleaving(a.len(), b.len(), &mut |il| {
                c.pair_domain += 1;
                // the stride sample always keeps the pairs in which both threads open a catching frame
                if c.pair_domain % cfg.pair_stride == cfg.pair_offset || (opens_catching(a) && opens_catching(b)) {
                    if want(index) {
                        let mut k: Vec<u32> = vec![0, a.len() as u32];
                        k.extend(a.iter().map(|o| *o as u32));
                        k.extend([0, b.len() as u32]);
                        k.extend(b.iter().map(|o| *o as u32));
                        k.extend_from_slice(il);
                        emit(Item { index, sub: 1, exact: true, key: k });
                    }
                    index += 1;
                    c.pair_enum += 1;
                }
            });
        }
    }
    // two threads that catch panics and query get_backtrace: all interleavings
    let templates: [&[u8]; 3] = [&[ENABLE, ENTER, PANIC, BACKTRACE], &[ENABLE, ENTER, PANIC, BACKTRACE, BACKTRACE], &[ENABLE, ENTER, PANIC, ENTER, PANIC, BACKTRACE]];
    for a in templates {
        for b in templates {
            for_each_interleaving(a.len(), b.len(), &mut |il| {
                if want(index) {
                    let mut k: Vec<u32> = vec![0, a.len() as u32];
                    k.extend(a.iter().map(|o| *o as u32));
                    k.extend([0, b.len() as u32]);
                    k.extend(b.iter().map(|o| *o as u32));
                    k.extend_from_slice(il);
                    emit(Item { index, sub: 1, exact: true, key: k });
                }
                index += 1;
                c.pair_backtrace += 1;
            });
        }
    }
    // random pairs over the full alphabet
    for k in random_keys(cfg.seed, "pair", cfg.pair_random, 4 + 4 * PAIR_MAX) {
        if want(index) {
            emit(Item { index, sub: 1, exact: false, key: k });
        }
        index += 1;
        c.pair_random += 1;
    }
    c
}

fn decode_item(sub: usize, exact: bool, key: &[u32], st: &mut Stats) -> CaseSpec {
    let mut ch = if exact { Choices::exact(key) } else { Choices::new(key) };
    (SUBS[sub].1)(&mut ch, st)
}

/// Shrinks a failing random choice vector: chunk removals, single removals,
/// zeroing; all candidates of a round run in one helper process.
fn shrink(sub: usize, key: &[u32], sig: &str) -> (Vec<u32>, Option<Fail>) {
    let mut cur = key.to_vec();
    let mut last: Option<Fail> = None;
    for _round in 0..80 {
        let n = cur.len();
        let mut cands: Vec<Vec<u32>> = Vec::new();
        let mut chunk = n / 2;
        while chunk >= 1 {
            let mut s = 0;
            while s < n {
                let e = (s + chunk).min(n);
                let mut c = cur[..s].to_vec();
                c.extend_from_slice(&cur[e..]);
                cands.push(c);
                s += chunk;
            }
            chunk /= 2;
        }
        for i in 0..n {
            if cur[i] != 0 {
                let mut c = cur.clone();
                c[i] = 0;
                cands.push(c);
            }
        }
        cands.dedup();
        if cands.is_empty() {
            break;
        }
        let mut st = Stats::default();
        let specs: Vec<CaseSpec> = cands.iter().map(|k| decode_item(sub, false, k, &mut st)).collect();
        let lines: Vec<String> = specs.iter().map(|s| s.line.clone()).collect();
        let res = exec_lines(&lines, 6);
        let hit = res.iter().position(|r| matches!(r, LineResult::Fail(s, _) if s == sig));
        match hit {
            Some(i) => {
                if let LineResult::Fail(s, m) = &res[i] {
                    last = Some(Fail::new(s.clone(), m.clone(), specs[i].show.clone()));
                }
                cur = cands[i].clone();
            }
            None => break,
        }
    }
    (cur, last)
}

pub fn run(run: &Run) {
    run.rule(
        "history: every sequence over {enable, disable, enter catch_panic, return (unique value), panic (unique message, String or &str payload; every third one unwinds past a local whose destructor calls catch_panic on a returning closure), set_hook again, set fallback Continue, get_backtrace} \
         in which `return` only occurs with an open frame, up to the stated length, complete (open frames are then closed by returns and a final probe panic outside any frame is appended), plus random histories of up to 30 steps that also use set-Abort-then-Continue; \
         each executed for real on a fresh thread in a helper process with a sentinel hook installed before the catcher's, checked after every step against the abstract model (enabled flag, frame stack with catching bit, level, sentinel messages, last recorded message); \
         pair: two threads in lock step (a scheduler grants one step at a time), every interleaving of the explicit steps of two histories over {enable, disable, enter, return, panic} of up to 3 steps (complete in thorough; in quick a fixed stride sample plus every pair in which both threads open a catching frame), every interleaving of 3x3 template pairs that catch panics and call get_backtrace, plus random pairs of up to 8 steps each over the full alphabet, each thread checked against its own model and against its own history run alone; \
         install: fresh children in which 2..5 threads call panic_catcher_set_hook() for the first time at generated offsets, with generated pauses (verif-hooks) before / while the installer replaces the process-wide hook, then enable catching and catch 1..1000 panics each - every error text must contain the thread's own message; \
         abort: dedicated children in which fallback mode Abort is set and a panic outside catch_panic must end the process with SIGABRT; \
         non-trivial history = (>=1 panic caught by a frame entered while enabled and >=1 panic inside only-transparent frames or outside any frame, the final probe not counted) or catching nesting >= 2; \
         non-trivial pair = some step of one thread runs while the other thread is inside a catching frame, or a thread enters catch_panic while the other thread's enabled flag is the opposite, or get_backtrace is asserted after the other thread caught a later panic",
    );
    run.assume("only string payloads (String and &'static str) are thrown; resume_unwind is not used");
    run.assume("get_backtrace is asserted only after a panic at level > 0 with no later uncaught panic (the statement does not say whether an uncaught panic is recorded)");
    run.assume("fallback mode Abort is only set in dedicated children and, in random histories, immediately followed by Continue on the same thread");
    run.assume("interleavings are at step granularity (one op of one thread at a time); finer-grained races inside the engine functions are not scheduled");
    let subs = subs();
    run_regressions(run, &subs);

    let stride: u64 = run.tier.pick(24, 1);
    let cfg = PlanCfg {
        hist_len: run.tier.pick(5, 7),
        hist_random: run.tier.pick(16_000, 400_000),
        pair_stride: stride,
        pair_offset: run.seed % stride,
        pair_random: run.tier.pick(5_000, 150_000),
        seed: run.seed,
    };
    let workers = run.threads as u64;
    let found = std::sync::Mutex::new(Vec::<Found>::new());
    let counts = std::sync::Mutex::new(PlanCounts::default());
    let incomplete = AtomicBool::new(false);
    std::thread::scope(|scope| {
        // the abort children run next to the workers
        scope.spawn(|| run.fixed("abort", &[vec![0], vec![1], vec![2]], &*find_sub(&subs, "abort").unwrap().f));
        scope.spawn(|| {
            let seed = run.seed;
            let key = move |i: u64| -> Vec<u32> { (0..24u32).map(|j| fingerprint(&(seed, "install", i, j)) as u32).collect() };
            run.enumerate("install", run.tier.pick(48, 3_000), &key, &*find_sub(&subs, "install").unwrap().f)
        });
        for w in 0..workers {
            let (cfg, found, counts, incomplete) = (&cfg, &found, &counts, &incomplete);
            scope.spawn(move || {
                let mut items: Vec<Item> = Vec::new();
                let c = plan(cfg, &|i| i % workers == w, &mut |it| items.push(it));
                if w == 0 {
                    *counts.lock().unwrap() = c;
                }
                let mut sts = [Stats::default(), Stats::default()];
                let lines: Vec<String> = items.iter().map(|it| decode_item(it.sub, it.exact, &it.key, &mut sts[it.sub]).line).collect();
                let res = exec_lines_on(&lines, 3, Some(w as usize));
                for (it, r) in items.iter().zip(res.iter()) {
                    match r {
                        LineResult::Ok => {}
                        LineResult::Fail(sig, msg) => {
                            let mut st = Stats::default();
                            let show = decode_item(it.sub, it.exact, &it.key, &mut st).show;
                            found.lock().unwrap().push(Found { index: it.index, sub: it.sub, exact: it.exact, key: it.key.clone(), fail: Fail::new(sig.clone(), msg.clone(), show) });
                        }
                        LineResult::NotRun => {
                            incomplete.store(true, Ordering::Relaxed);
                            sts[it.sub].class("cases-not-run-after-repeated-child-deaths");
                        }
                    }
                }
                let [s0, s1] = sts;
                run.add_stats(SUBS[0].0, s0);
                run.add_stats(SUBS[1].0, s1);
            });
        }
    });
    let mut found = found.into_inner().unwrap();
    // enumerated cases first, shortest first; then plan order
    found.sort_by_key(|f| (!f.exact, if f.exact { f.key.len() } else { 0 }, f.index));
    let clean = found.is_empty() && !incomplete.load(Ordering::Relaxed);
    let c = *counts.lock().unwrap();
    run.note(
        "history_enumeration",
        json!({"max_explicit_steps": cfg.hist_len, "alphabet": &NAMES[..8], "histories": c.hist_enum, "complete": clean}),
    );
    run.note("history_random", json!({"cases": c.hist_random, "max_steps": 30, "alphabet": &NAMES[..]}));
    run.note(
        "pair_enumeration",
        json!({"histories_per_thread": c.pair_threads, "max_explicit_steps": 3, "alphabet": &NAMES[..5], "domain (pairs x interleavings)": c.pair_domain, "executed": c.pair_enum, "complete": clean && stride == 1}),
    );
    run.note("pair_backtrace_templates", json!({"cases (3x3 template pairs x all interleavings)": c.pair_backtrace}));
    run.note("pair_random", json!({"cases": c.pair_random, "max_steps_per_thread": PAIR_MAX, "alphabet": &NAMES[..]}));
    run.any_random.store(true, Ordering::Relaxed);
    run.exhaustive_all.store(false, Ordering::Relaxed);

    // One violation per signature: the first candidate (enumerated and short
    // ones first) that also fails when it runs alone in a fresh helper process,
    // which is what a replay does; random ones are then shrunk.  A failure that
    // never reproduces alone depends on state left behind by earlier threads of
    // the same helper process and is reported as such.
    let mut sigs: Vec<String> = Vec::new();
    for f in &found {
        if !sigs.contains(&f.fail.sig) {
            sigs.push(f.fail.sig.clone());
        }
    }
    for sig in sigs.into_iter().take(8) {
        let all: Vec<&Found> = found.iter().filter(|f| f.fail.sig == sig).collect();
        // the first 4 and up to 28 evenly spaced further ones, confirmed in parallel
        let mut picks: Vec<usize> = (0..all.len().min(4)).collect();
        for j in 0..28 {
            let k = j * all.len() / 28;
            if !picks.contains(&k) {
                picks.push(k);
            }
        }
        picks.sort();
        let cands: Vec<&Found> = picks.iter().map(|k| all[*k]).collect();
        let mut confirmed: Vec<Option<Fail>> = Vec::new();
        for chunk in cands.chunks(run.threads) {
            let part: Vec<Option<Fail>> = std::thread::scope(|scope| {
                let hs: Vec<_> = chunk
                    .iter()
                    .map(|f| {
                        let sig = &sig;
                        scope.spawn(move || {
                            let mut st = Stats::default();
                            let spec = decode_item(f.sub, f.exact, &f.key, &mut st);
                            match run_single(&spec) {
                                Err(fail) if fail.sig == *sig => Some(fail),
                                _ => None,
                            }
                        })
                    })
                    .collect();
                hs.into_iter().map(|h| h.join().unwrap_or(None)).collect()
            });
            confirmed.extend(part);
            if confirmed.iter().any(|c| c.is_some()) {
                break;
            }
        }
        let chosen: Option<(&Found, Fail)> = confirmed.iter().position(|c| c.is_some()).map(|i| (cands[i], confirmed[i].clone().unwrap()));
        match chosen {
            Some((f, fail)) if f.exact => run.push_violation(Violation { sub: SUBS[f.sub].0.to_string(), fail, choices: f.key.clone(), exact: true }),
            Some((f, fail)) => {
                let (key, shrunk) = shrink(f.sub, &f.key, &sig);
                run.push_violation(Violation { sub: SUBS[f.sub].0.to_string(), fail: shrunk.unwrap_or(fail), choices: key, exact: false });
            }
            None => {
                let f = cands[0];
                let mut fail = f.fail.clone();
                fail.sig = format!("{sig}(only-after-other-cases-in-the-same-process)");
                fail.msg.push_str(" [this case passes when it runs alone in a fresh helper process: the failure depends on state left behind by threads of earlier cases, i.e. catcher state is not per-thread]");
                run.push_violation(Violation { sub: SUBS[f.sub].0.to_string(), fail, choices: f.key.clone(), exact: f.exact });
            }
        }
    }
}

// ---------------------------------------------------------------------------
// child side

thread_local! {
    /// messages the sentinel hook received on this thread
    static SENTINEL: RefCell<Vec<String>> = const { RefCell::new(Vec::new()) };
}

fn install_hooks() {
    std::panic::set_hook(Box::new(|info| {
        let msg = if let Some(s) = info.payload().downcast_ref::<&str>() {
            s.to_string()
        } else if let Some(s) = info.payload().downcast_ref::<String>() {
            s.clone()
        } else {
            "<non-string payload>".to_string()
        };
        SENTINEL.with(|s| s.borrow_mut().push(msg));
    }));
    panic_catcher_set_hook();
}

fn sentinel_state() -> (usize, Option<String>) {
    SENTINEL.with(|s| {
        let s = s.borrow();
        (s.len(), s.last().cloned())
    })
}

struct Gate {
    go: Receiver<()>,
    done: Sender<()>,
    started: bool,
}

enum Expect {
    Nothing,
    Return(u32, u64),
    Panic(Option<u32>, String),
}

const DEAD: u64 = u64::MAX;

struct Cx<'a> {
    ops: &'a [u8],
    pos: usize,
    tag: &'a str,
    model: Model,
    expect: Expect,
    fail: Option<(String, String)>,
    /// (position, level, sentinel count, observation code)
    trace: Vec<(usize, u64, usize, u8)>,
    obs: u8,
    gate: Option<Gate>,
    /// index of the case, for the immediately printed failure line
    case_index: usize,
}

fn message(tag: &str, pos: usize) -> String {
    // some messages are long (2 KiB, 20 KiB, 70 KiB): the text must still come back whole
    match pos % 11 {
        4 => format!("wfv19<{tag}:{pos}:{}>", "m".repeat(2_000)),
        7 => format!("wfv19<{tag}:{pos}:{}>", "n".repeat(20_000)),
        9 => format!("wfv19<{tag}:{pos}:{}>", "o".repeat(70_000)),
        _ => format!("wfv19<{tag}:{pos}>"),
    }
}

fn value(tag: &str, pos: usize) -> u64 {
    (fingerprint(tag) % 1_000_003) * 1000 + pos as u64
}

impl Cx<'_> {
    fn dead(&self) -> bool {
        self.fail.is_some()
    }

    fn fail(&mut self, sig: &str, msg: String) {
        if self.fail.is_none() {
            let at = if self.pos == 0 { "before the first step".to_string() } else { format!("at step {} ({})", self.pos - 1, NAMES[self.ops[self.pos - 1] as usize]) };
            let who = self.tag.trim_start_matches(|c: char| c.is_ascii_digit());
            let msg = format!("thread {}: {at}: {msg}", if who.is_empty() { "-" } else { who });
            // printed at once: the process may be about to abort
            println!("F {} {}", self.case_index, json!({"sig": sig, "msg": msg}));
            self.fail = Some((sig.to_string(), msg));
        }
    }

    /// Oracle after every step.
    fn check_state(&mut self) {
        let (_, bad) = DROP_CATCH.with(|c| c.get());
        if bad > 0 {
            DROP_CATCH.with(|c| c.set((0, 0)));
            self.fail("catch-panic-in-destructor-wrong", "a catch_panic call made from a destructor while a panic was unwinding did not return its closure's value".to_string());
            return;
        }
        let level = wirefilter::verif::panic_catcher_level();
        let (n, last) = sentinel_state();
        self.trace.push((self.pos, level, n, self.obs));
        self.obs = 0;
        if level != self.model.level {
            self.fail("level-mismatch", format!("catch_panic nesting level on this thread is {level}, the model says {}", self.model.level));
            return;
        }
        if n != self.model.sentinel.len() {
            self.fail(
                if n < self.model.sentinel.len() { "panic-outside-did-not-reach-previous-hook" } else { "caught-panic-reached-previous-hook" },
                format!("the previously installed hook has received {n} panics on this thread, the model says {} ({:?})", self.model.sentinel.len(), last),
            );
            return;
        }
        if let Some(p) = self.model.sentinel.last() {
            let want = message(self.tag, *p);
            if last.as_deref() != Some(want.as_str()) {
                self.fail("previous-hook-wrong-message", format!("the previously installed hook last received {last:?}, expected {want:?}"));
            }
        }
    }

    fn gate(&mut self) {
        let mut lost = false;
        if let Some(g) = &mut self.gate {
            if g.started {
                let _ = g.done.send(());
            }
            g.started = true;
            if g.go.recv().is_err() {
                lost = true;
            }
        }
        if lost {
            self.fail("schedule-exhausted", "the scheduler ended before this thread's history (harness error)".to_string());
        }
    }
}

thread_local! {
    /// (runs, wrong results) of the catch_panic calls made from a destructor during unwinding
    static DROP_CATCH: std::cell::Cell<(u32, u32)> = const { std::cell::Cell::new((0, 0)) };
}

/// A local whose destructor calls `catch_panic` on a closure that returns normally
/// (cleanup code that itself uses the library, run while a panic is unwinding).
struct CatchInDrop(u64);

impl Drop for CatchInDrop {
    fn drop(&mut self) {
        let v = self.0;
        let r = catch_panic(move || v);
        DROP_CATCH.with(|c| {
            let (n, bad) = c.get();
            c.set((n + 1, bad + (r != Ok(v)) as u32));
        });
    }
}

fn throw(msg: String, as_str: bool) -> ! {
    if as_str {
        let s: &'static str = Box::leak(msg.into_boxed_str());
        std::panic::panic_any(s)
    } else {
        std::panic::panic_any(msg)
    }
}

/// Interprets steps until the frame `me` returns (or the history ends at the top).
fn run_frame(cx: &mut Cx<'_>, me: Option<u32>) -> u64 {
    loop {
        if cx.dead() {
            return DEAD;
        }
        cx.check_state();
        if cx.dead() {
            return DEAD;
        }
        if cx.pos >= cx.ops.len() {
            if me.is_some() {
                cx.fail("harness-history-ended-inside-frame", "history ended inside a frame".to_string());
            }
            return DEAD;
        }
        cx.gate();
        if cx.dead() {
            return DEAD;
        }
        let pos = cx.pos;
        let op = cx.ops[pos];
        cx.pos += 1;
        if !cx.model.can(op) {
            cx.fail("harness-bad-history", "return without an open frame".to_string());
            return DEAD;
        }
        if cx.model.frames.last().map(|f| f.0) != me {
            cx.fail("control-flow-diverged", format!("executing in frame {me:?} but the model's innermost frame is {:?}", cx.model.frames.last()));
            return DEAD;
        }
        let eff = cx.model.step(op, pos);
        match op {
            ENABLE => panic_catcher_enable(),
            DISABLE => panic_catcher_disable(),
            SETHOOK => panic_catcher_set_hook(),
            SETCONT => {
                let prev = panic_catcher_set_fallback_mode(Mode::Continue);
                if prev != Mode::Continue {
                    cx.fail("fallback-mode-previous", format!("set_fallback_mode returned {prev:?}, this thread had Continue"));
                }
            }
            ABORTCONT => {
                let p1 = panic_catcher_set_fallback_mode(Mode::Abort);
                let p2 = panic_catcher_set_fallback_mode(Mode::Continue);
                if p1 != Mode::Continue || p2 != Mode::Abort {
                    cx.fail("fallback-mode-previous", format!("set_fallback_mode(Abort) returned {p1:?} (had Continue), then set_fallback_mode(Continue) returned {p2:?} (had Abort)"));
                }
            }
            BACKTRACE => {
                let bt = panic_catcher_get_backtrace();
                cx.obs = if bt.is_some() { 4 } else { 5 };
                if let (Some(p), false) = (cx.model.recorded, cx.model.recorded_uncertain) {
                    let want = message(cx.tag, p);
                    match bt {
                        Some(t) if t.contains(&want) => {}
                        other => cx.fail("backtrace-lacks-last-message", format!("get_backtrace returned {:?}, expected text containing {want:?}", other.map(|t| t.chars().take(160).collect::<String>()))),
                    }
                }
            }
            ENTER => {
                let Effect::Entered(id) = eff else { unreachable!() };
                let r = {
                    let cx2 = &mut *cx;
                    catch_panic(AssertUnwindSafe(move || run_frame(cx2, Some(id))))
                };
                if cx.dead() {
                    return DEAD;
                }
                let expect = std::mem::replace(&mut cx.expect, Expect::Nothing);
                match (r, expect) {
                    (Ok(v), Expect::Return(f, want)) if f == id => {
                        cx.obs = 1;
                        if v != want {
                            cx.fail("wrong-return-value", format!("catch_panic returned Ok({v}), f returned {want}"));
                        }
                    }
                    (Err(text), Expect::Panic(Some(f), msg)) if f == id => {
                        cx.obs = 2;
                        if !text.contains(&msg) {
                            cx.fail("err-text-lacks-panic-message", format!("catch_panic returned Err({:?}...), which does not contain the panic message {msg:?}", text.chars().take(160).collect::<String>()));
                        } else {
                            match panic_catcher_get_backtrace() {
                                Some(t) if t.contains(&msg) => {}
                                other => cx.fail("backtrace-lacks-last-message", format!("after the caught panic get_backtrace returned {:?}, expected text containing {msg:?}", other.map(|t| t.chars().take(160).collect::<String>()))),
                            }
                        }
                    }
                    (Ok(v), Expect::Panic(landing, msg)) => cx.fail(
                        "panic-turned-into-ok",
                        format!("catch_panic of frame {id} returned Ok({v}) although panic {msg:?} was thrown inside and should have been caught by {landing:?}"),
                    ),
                    (Ok(v), e) => cx.fail("unexpected-ok", format!("catch_panic of frame {id} returned Ok({v}); expected {}", describe(&e))),
                    (Err(text), e) => cx.fail(
                        "panic-caught-by-wrong-frame",
                        format!("catch_panic of frame {id} returned Err({:?}...); expected {}", text.chars().take(120).collect::<String>(), describe(&e)),
                    ),
                }
            }
            RETURN => {
                let Effect::Returned(id) = eff else { unreachable!() };
                debug_assert_eq!(Some(id), me);
                let v = value(cx.tag, pos);
                cx.expect = Expect::Return(id, v);
                return v;
            }
            PANIC => {
                let Effect::Panicked(landing) = eff else { unreachable!() };
                let msg = message(cx.tag, pos);
                cx.expect = Expect::Panic(landing, msg.clone());
                // every third panic unwinds past a local whose destructor calls catch_panic
                let _cleanup = if pos % 3 == 0 { Some(CatchInDrop(value(cx.tag, pos))) } else { None };
                throw(msg, pos % 2 == 1);
            }
            _ => unreachable!(),
        }
    }
}

fn describe(e: &Expect) -> String {
    match e {
        Expect::Nothing => "no frame exit at all".to_string(),
        Expect::Return(f, v) => format!("frame {f} to return Ok({v})"),
        Expect::Panic(Some(f), m) => format!("panic {m:?} to be caught by frame {f}"),
        Expect::Panic(None, m) => format!("panic {m:?} to unwind to the thread top (no catching frame is open)"),
    }
}

struct Outcome {
    fail: Option<(String, String)>,
    trace: Vec<(usize, u64, usize, u8)>,
}

/// Body of a history thread.
fn run_history(ops: &[u8], tag: &str, gate: Option<Gate>, case_index: usize) -> Outcome {
    let mut cx = Cx { ops, pos: 0, tag, model: Model::default(), expect: Expect::Nothing, fail: None, trace: Vec::new(), obs: 0, gate, case_index };
    loop {
        let r = {
            let cx2 = &mut cx;
            catch_unwind(AssertUnwindSafe(move || run_frame(cx2, None)))
        };
        if cx.dead() {
            break;
        }
        match r {
            Ok(_) => break,
            Err(payload) => {
                let got = panic_message(&payload);
                let expect = std::mem::replace(&mut cx.expect, Expect::Nothing);
                match expect {
                    Expect::Panic(None, msg) => {
                        cx.obs = 3;
                        if got != msg {
                            cx.fail("unwound-payload-differs", format!("the panic that reached the thread top carries {got:?}, thrown was {msg:?}"));
                        }
                    }
                    e => cx.fail("panic-escaped-catching-frame", format!("panic {got:?} unwound to the thread top; expected {}", describe(&e))),
                }
            }
        }
    }
    if !cx.dead() && cx.pos != cx.ops.len() {
        cx.fail("harness-history-not-finished", "interpreter stopped early".to_string());
    }
    // leave the thread as it was found (catching disabled): helper processes run thousands of
    // histories, and whatever a history leaves behind must not leak into the next one
    if cx.model.enabled {
        panic_catcher_disable();
    }
    if let Some(g) = &cx.gate {
        let _ = g.done.send(());
    }
    Outcome { fail: cx.fail, trace: cx.trace }
}

fn spawn_history(ops: Vec<u8>, tag: String, gate: Option<Gate>, case_index: usize) -> std::thread::JoinHandle<Outcome> {
    std::thread::Builder::new().stack_size(1 << 20).spawn(move || run_history(&ops, &tag, gate, case_index)).expect("spawn history thread")
}

fn join(h: std::thread::JoinHandle<Outcome>, case_index: usize, who: &str) -> Outcome {
    match h.join() {
        Ok(o) => o,
        Err(p) => {
            let msg = format!("thread {who}: history thread ended by an unexpected panic: {}", panic_message(&p));
            println!("F {} {}", case_index, json!({"sig": "history-thread-panicked", "msg": msg}));
            Outcome { fail: Some(("history-thread-panicked".to_string(), msg)), trace: Vec::new() }
        }
    }
}

fn child_pair(i: usize, a: &[u8], b: &[u8], sched: &str, solo: &mut HashMap<Vec<u8>, Vec<(usize, u64, usize, u8)>>) {
    // each history alone first (also checked against the model)
    for (who, ops) in [("A", a), ("B", b)] {
        if !solo.contains_key(ops) {
            let o = join(spawn_history(ops.to_vec(), format!("{i}{who}s"), None, i), i, who);
            if o.fail.is_some() {
                return;
            }
            solo.insert(ops.to_vec(), o.trace);
        }
    }
    let (go_a, rx_a) = channel();
    let (go_b, rx_b) = channel();
    let (tx_a, done_a) = channel();
    let (tx_b, done_b) = channel();
    let ha = spawn_history(a.to_vec(), format!("{i}A"), Some(Gate { go: rx_a, done: tx_a, started: false }), i);
    let hb = spawn_history(b.to_vec(), format!("{i}B"), Some(Gate { go: rx_b, done: tx_b, started: false }), i);
    for c in sched.chars() {
        let (go, done) = if c == 'a' { (&go_a, &done_a) } else { (&go_b, &done_b) };
        let _ = go.send(());
        let _ = done.recv();
    }
    drop(go_a);
    drop(go_b);
    let oa = join(ha, i, "A");
    let ob = join(hb, i, "B");
    if oa.fail.is_some() || ob.fail.is_some() {
        return;
    }
    for (who, ops, o) in [("A", a, &oa), ("B", b, &ob)] {
        let alone = &solo[ops];
        if *alone != o.trace {
            let k = alone.iter().zip(o.trace.iter()).position(|(x, y)| x != y).unwrap_or(alone.len().min(o.trace.len()));
            let msg = format!(
                "thread {who}: observations differ from the same history run alone, first at observation {k}: alone {:?}, interleaved {:?} (position, level, sentinel count, result code)",
                alone.get(k),
                o.trace.get(k)
            );
            println!("F {} {}", i, json!({"sig": "other-thread-altered-observations", "msg": msg}));
            return;
        }
    }
}

fn pin_to_slot(slot: usize) {
    // best effort; threads spawned later inherit the mask
    unsafe {
        let mut set: libc::cpu_set_t = std::mem::zeroed();
        if libc::sched_getaffinity(0, std::mem::size_of::<libc::cpu_set_t>(), &mut set) != 0 {
            return;
        }
        let allowed: Vec<usize> = (0..libc::CPU_SETSIZE as usize).filter(|c| libc::CPU_ISSET(*c, &set)).collect();
        if allowed.len() < 2 {
            return;
        }
        let cpu = allowed[slot % allowed.len()];
        let mut one: libc::cpu_set_t = std::mem::zeroed();
        libc::CPU_SET(cpu, &mut one);
        let _ = libc::sched_setaffinity(0, std::mem::size_of::<libc::cpu_set_t>(), &one);
    }
}

fn child_batch(slot: Option<usize>) -> i32 {
    use std::io::BufRead;
    if let Some(s) = slot {
        pin_to_slot(s);
    }
    install_hooks();
    let stdin = std::io::stdin();
    let lines: Vec<String> = stdin.lock().lines().map_while(|l| l.ok()).collect();
    let mut solo = HashMap::new();
    for (i, l) in lines.iter().enumerate() {
        let parts: Vec<&str> = l.split_whitespace().collect();
        if parts.is_empty() {
            continue;
        }
        println!("S {i}");
        match (parts[0], parts.len()) {
            ("h", 2) => {
                let Some(ops) = parse_ops(parts[1]) else {
                    println!("F {i} {}", json!({"sig": "child-protocol", "msg": "bad ops"}));
                    continue;
                };
                let _ = join(spawn_history(ops, format!("{i}"), None, i), i, "-");
            }
            ("p", 4) => {
                let (Some(a), Some(b)) = (parse_ops(parts[1]), parse_ops(parts[2])) else {
                    println!("F {i} {}", json!({"sig": "child-protocol", "msg": "bad ops"}));
                    continue;
                };
                if parts[3].chars().filter(|c| *c == 'a').count() != a.len() || parts[3].chars().filter(|c| *c == 'b').count() != b.len() {
                    println!("F {i} {}", json!({"sig": "child-protocol", "msg": "schedule does not match the histories"}));
                    continue;
                }
                child_pair(i, &a, &b, parts[3], &mut solo);
            }
            _ => println!("F {i} {}", json!({"sig": "child-protocol", "msg": "bad line"})),
        }
    }
    println!("D");
    0
}

/// Fallback mode Abort: thread X sets Abort; catching still works on X and on
/// another thread Y; then X panics outside any frame and the process must abort.
fn child_abort(variant: usize) -> i32 {
    install_hooks();
    let x = std::thread::spawn(move || {
        let prev = panic_catcher_set_fallback_mode(Mode::Abort);
        if prev != Mode::Continue {
            println!("X-BAD-PREVIOUS-MODE");
        }
        if variant != 1 {
            panic_catcher_enable();
            match catch_panic(|| -> u64 { throw("abort-child-x-inner".to_string(), false) }) {
                Err(t) if t.contains("abort-child-x-inner") => println!("X-CAUGHT-OK"),
                other => println!("X-CAUGHT-BAD {other:?}"),
            }
        } else {
            println!("X-CAUGHT-OK");
        }
        let y = std::thread::spawn(|| {
            panic_catcher_enable();
            match catch_panic(|| -> u64 { throw("abort-child-y-inner".to_string(), true) }) {
                Err(t) if t.contains("abort-child-y-inner") => println!("Y-CAUGHT-OK"),
                other => println!("Y-CAUGHT-BAD {other:?}"),
            }
            // Y never changed its fallback mode: its own panic outside catch_panic reaches the previous hook
            let r = catch_unwind(|| -> u64 { throw("abort-child-y-outside".to_string(), false) });
            let (n, last) = sentinel_state();
            if r.is_err() && n == 1 && last.as_deref() == Some("abort-child-y-outside") {
                println!("Y-OUTSIDE-OK");
            } else {
                println!("Y-OUTSIDE-BAD {n} {last:?}");
            }
        });
        let _ = y.join();
        if variant == 2 {
            panic_catcher_disable();
        }
        println!("PRE-ABORT");
        let r = catch_unwind(|| -> u64 { throw("abort-child-x-outside".to_string(), false) });
        println!("SURVIVED {}", r.is_err());
    });
    let _ = x.join();
    println!("SURVIVED");
    0
}

fn child_install(spec: &str) -> i32 {
    let threads: Vec<(u64, u64, u64, usize)> = spec
        .split(',')
        .filter_map(|t| {
            let p: Vec<u64> = t.split(':').filter_map(|x| x.parse().ok()).collect();
            (p.len() == 4).then(|| (p[0], p[1], p[2], p[3] as usize))
        })
        .collect();
    if threads.is_empty() {
        return 2;
    }
    // a previously installed hook, as in a host program (silent)
    std::panic::set_hook(Box::new(|_| {}));
    let barrier = std::sync::Barrier::new(threads.len());
    let bad = std::sync::Mutex::new(Vec::<String>::new());
    std::thread::scope(|sc| {
        for (t, (start, before, during, catches)) in threads.iter().enumerate() {
            let (barrier, bad) = (&barrier, &bad);
            sc.spawn(move || {
                barrier.wait();
                std::thread::sleep(std::time::Duration::from_micros(*start));
                wirefilter::verif::set_hook_install_pauses(*before, *during);
                panic_catcher_set_hook();
                panic_catcher_enable();
                for k in 0..*catches {
                    let msg = format!("boom-{t}-{k}");
                    let m2 = msg.clone();
                    match catch_panic(move || -> () { panic!("{}", m2) }) {
                        Err(text) if text.contains(&msg) => {}
                        Err(text) => {
                            let first = text.lines().next().unwrap_or("").to_string();
                            bad.lock().unwrap().push(format!("thread {t} catch #{k}: panic message {msg:?} missing from the error text, which starts {first:?}"));
                            break;
                        }
                        Ok(()) => {
                            bad.lock().unwrap().push(format!("thread {t} catch #{k}: catch_panic returned Ok for a panicking closure"));
                            break;
                        }
                    }
                    if k % 16 == 15 {
                        std::thread::sleep(std::time::Duration::from_micros(100));
                    }
                }
                panic_catcher_disable();
            });
        }
    });
    for b in bad.lock().unwrap().iter() {
        println!("BAD {b}");
    }
    println!("DONE");
    0
}

pub fn child(args: &[String]) -> i32 {
    match args.first().map(|s| s.as_str()) {
        Some("batch") => child_batch(args.get(1).and_then(|s| s.parse().ok())),
        Some("abort") => child_abort(args.get(1).and_then(|s| s.parse().ok()).unwrap_or(0)),
        Some("install") => child_install(args.get(1).map(|s| s.as_str()).unwrap_or("")),
        _ => 2,
    }
}

use wirefilter::*;
fn main() {
    let mut b = SchemeBuilder::new();
    b.add_field("ip", Type::Ip).unwrap();
    let s = b.build();
    for t in ["255", "1.2", "1.2.3", "1.2.3/24", "10/8", "1.2.3.04", "010.1.1.1", "1.2.3.4/032", "::1/0128", "1", "0", "4294967295", "0x10", "1.2.3.4.5", "1..2", "255..256", "::ffff:1.2.3", "a::/16", "1.2.3.4/32", "1.2.3.0/24"] {
        let f = format!("ip in {{{t}}}");
        match s.parse(&f) {
            Ok(a) => println!("{t:>14} => {}", serde_json::to_string(&a).unwrap()),
            Err(e) => println!("{t:>14} => ERR {}", e.to_string().lines().last().unwrap_or("")),
        }
    }
}

use wirefilter::*;
use serde::de::DeserializeSeed;
fn main() {
    let mut b = SchemeBuilder::new();
    b.add_field("n", Type::Int).unwrap();
    b.add_list(Type::Int, NeverList{}).unwrap();
    let s = b.build();
    for layers in [1usize, 31, 32, 33, 34, 40, 100] {
        let mut t = String::from("\"Int\"");
        for _ in 0..layers { t = format!("{{\"Array\":{t}}}"); }
        let doc = format!("{{\"$lists\":[{{\"type\":{t},\"data\":{{}}}}]}}");
        let mut ec = ExecutionContext::<()>::new(&s);
        let r = std::panic::catch_unwind(std::panic::AssertUnwindSafe(|| ec.deserialize(&mut serde_json::Deserializer::from_str(&doc)).map_err(|e| e.to_string())));
        println!("{layers}: {:?}", r.map_err(|_| "PANIC"));
        let r = std::panic::catch_unwind(|| serde_json::from_str::<Type>(&t).map_err(|e| e.to_string()));
        println!("  type: {:?}", r.map_err(|_| "PANIC").map(|r| r.map(|_| "ok")));
    }
}
